(** Readers, writers and the two io implementations.

    - scheduled readers/writers: the environment decides, call by call, how many
      bytes a [read]/[write] transfers, when it answers [Interrupted] and when it
      fails for good;
    - [read_exact_std]/[write_all_std]: the default methods of [std::io::Read]/[Write]
      as documented; [read_exact_shim]/[write_all_shim]: [default_read_exact] and
      [Write::write_all] of borsh/src/nostd_io.rs;
    - [Read for &[u8]], [Write for &mut [u8]], [Write for Vec<u8>]: the contract of
      std::io next to the transcription of nostd_io.rs, and a small op language run
      on both.
    Definitions only; the proofs are in IoProofs*.v. *)
From Coq Require Import List NArith PArith Bool.
From Borsh Require Import Bytes Result Loop Ty Ser De Entry.
Import ListNotations.
Local Open Scope N_scope.

(** * Splitting without measuring the input first *)
Fixpoint take_upto_aux (bs : bytes) (n : N) (acc : bytes) : bytes * bytes :=
  if n =? 0 then (rev_append acc [], bs) else
  match bs with
  | [] => (rev_append acc [], [])
  | b :: r => take_upto_aux r (N.pred n) (b :: acc)
  end.
(** The first [min n (len bs)] bytes and the rest. *)
Definition take_upto (n : N) (bs : bytes) : bytes * bytes := take_upto_aux bs n [].

(** * Generic [read_exact] over one [read] *)
Section ReadExact.
  Context {S : Type}.
  Variable rd : N -> S -> read_result * S.       (* one [Read::read] call with an n-byte buffer *)
  Variable budget : S -> N.                      (* bound on the [RIntr] answers still to come *)

  (** std::io::Read::read_exact, default method, as documented: "reads the exact
      number of bytes required to fill buf"; [Interrupted] is retried; a read of 0
      bytes before the buffer is full is [UnexpectedEof] "failed to fill whole buffer";
      any other error is returned. *)
  Definition rx_step_std (st : N * list bytes * S) : result ((N * list bytes * S) + (bytes * S)) :=
    let '(need, acc, s) := st in
    if need =? 0 then Ok (inr (concat (rev acc), s)) else
    match rd need s with
    | (RData [], _) => Err UnexpectedEof MFillWhole
    | (RData ch, s') => Ok (inl (need - len ch, ch :: acc, s'))
    | (RIntr, s') => Ok (inl (need, acc, s'))
    | (RFail k m, _) => Err k m
    end.
  Definition read_exact_std (n : N) (s : S) : result (bytes * S) :=
    loop_fuel (n + budget s + 1) rx_step_std (n, [], s).

  (** nostd_io.rs [default_read_exact]: [while !buf.is_empty()] with [Ok(0) => break],
      then the test [if !buf.is_empty()] after the loop. *)
  Definition rx_step_shim (st : N * list bytes * S) : result ((N * list bytes * S) + (N * list bytes * S)) :=
    let '(need, acc, s) := st in
    if need =? 0 then Ok (inr st) else
    match rd need s with
    | (RData [], s') => Ok (inr (need, acc, s'))                   (* Ok(0) => break *)
    | (RData ch, s') => Ok (inl (need - len ch, ch :: acc, s'))    (* buf = &mut tmp[n..] *)
    | (RIntr, s') => Ok (inl (need, acc, s'))
    | (RFail k m, _) => Err k m
    end.
  Definition read_exact_shim (n : N) (s : S) : result (bytes * S) :=
    '(need, acc, s') <- loop_fuel (n + budget s + 1) rx_step_shim (n, [], s) ;;
    if need =? 0 then Ok (concat (rev acc), s') else Err UnexpectedEof MFillWhole.
End ReadExact.

(** * The scheduled reader *)
Inductive rresp :=
| Deliver (k : positive)        (* hand over at most k bytes *)
| Interrupt                     (* Err(Interrupted) *)
| Fail (k : kind) (m : msg).    (* Err(k, m) *)

Record rstate := { data : bytes; sched : list rresp }.

(** One [read] call with an [n]-byte buffer consumes one schedule entry.  An error of
    kind [Interrupted] is an interruption whatever its message. *)
Definition sread (n : N) (st : rstate) : read_result * rstate :=
  match sched st with
  | [] => let '(a, r) := take_upto n (data st) in (RData a, {| data := r; sched := [] |})
  | Deliver k :: q =>
      let '(a, r) := take_upto (N.min (Npos k) n) (data st) in (RData a, {| data := r; sched := q |})
  | Interrupt :: q => (RIntr, {| data := data st; sched := q |})
  | Fail Interrupted _ :: q => (RIntr, {| data := data st; sched := q |})
  | Fail k m :: q => (RFail k m, {| data := data st; sched := q |})
  end.
Definition sbudget (st : rstate) : N := len (sched st).

Definition sched_reader_std : reader rstate := {|
  rd_exact := read_exact_std sread sbudget;
  rd_some := sread;
  rd_budget := sbudget;
|}.
Definition sched_reader_shim : reader rstate := {|
  rd_exact := read_exact_shim sread sbudget;
  rd_some := sread;
  rd_budget := sbudget;
|}.
Definition sched_reader (shim : bool) : reader rstate :=
  if shim then sched_reader_shim else sched_reader_std.

(** What the correspondence observes of a scheduled decode: the result and the
    number of bytes pulled from the reader (known whenever the reader state is). *)
Definition pulled (d0 : bytes) (st : rstate) : N := len d0 - len (data st).
Definition decr (shim : bool) (c : cfg) (t : ty) (st : rstate) : result (val * N) :=
  '(v, st') <- dec (sched_reader shim) c t st ;; Ok (v, pulled (data st) st').
(** [try_from_reader]/[from_reader] with the count including the probe. *)
Definition try_from_reader_count (shim : bool) (c : cfg) (t : ty) (st : rstate) : result val * option N :=
  match dec (sched_reader shim) c t st with
  | Ok (v, s1) =>
      match rd_exact (sched_reader shim) 1 s1 with
      | Err UnexpectedEof _ => (Ok v, Some (pulled (data st) s1))
      | Ok (_, s2) => (Err InvalidData MNotAllBytesRead, Some (pulled (data st) s2))
      | Panic w => (Panic w, None)
      | _ => (Err InvalidData MNotAllBytesRead, None)
      end
  | Err k m => (Err k m, None)
  | Panic w => (Panic w, None)
  end.

(** * Writers *)
Inductive write_result :=
| WCount (n : N)                (* Ok(n) *)
| WIntr                         (* Err(Interrupted) *)
| WErr (k : kind) (m : msg).

Definition werr := option (kind * msg).

Section WriteAll.
  Context {W : Type}.
  Variable wr : bytes -> W -> write_result * W.     (* one [Write::write] call *)
  Variable wbudget : W -> N.                        (* bound on the [WIntr] answers still to come *)

  Definition drop (n : N) (b : bytes) : bytes := snd (take_upto n b).

  (** std::io::Write::write_all as documented: "continuously calls write until there
      is no more data to be written or an error of non-Interrupted kind is returned";
      a write of 0 bytes is [WriteZero] "failed to write whole buffer". *)
  Definition wa_step_std (st : bytes * W) : result ((bytes * W) + (W * werr)) :=
    let '(rem, w) := st in
    match rem with
    | [] => Ok (inr (w, None))
    | _ :: _ =>
        match wr rem w with
        | (WCount n, w') =>
            if n =? 0 then Ok (inr (w', Some (WriteZero, MWriteWhole)))
            else Ok (inl (drop n rem, w'))
        | (WIntr, w') => Ok (inl (rem, w'))
        | (WErr k m, w') => Ok (inr (w', Some (k, m)))
        end
    end.
  Definition write_all_std (b : bytes) (w : W) : result (W * werr) :=
    loop_fuel (len b + wbudget w + 1) wa_step_std (b, w).

  (** nostd_io.rs [Write::write_all]: [while !buf.is_empty() { match self.write(buf) {
      Ok(0) => return Err(WriteZero..), Ok(n) => buf = &buf[n..],
      Err(Interrupted) => {}, Err(e) => return Err(e) } } Ok(())]. *)
  Definition wa_step_shim (st : bytes * W) : result ((bytes * W) + (W * werr)) :=
    let '(rem, w) := st in
    if len rem =? 0 then Ok (inr (w, None)) else
    match wr rem w with
    | (WCount 0, w') => Ok (inr (w', Some (WriteZero, MWriteWhole)))
    | (WCount n, w') => Ok (inl (drop n rem, w'))
    | (WIntr, w') => Ok (inl (rem, w'))
    | (WErr k m, w') => Ok (inr (w', Some (k, m)))
    end.
  Definition write_all_shim (b : bytes) (w : W) : result (W * werr) :=
    loop_fuel (len b + wbudget w + 1) wa_step_shim (b, w).
End WriteAll.

(** ** The scheduled writer *)
Inductive wresp :=
| WAccept (k : positive)         (* take at most k bytes *)
| WInterrupt
| WFail (k : kind) (m : msg)
| Refuse.                       (* Ok(0): takes nothing *)

Record wstate := { sink : bytes; wsched : list wresp }.

Definition swrite (b : bytes) (st : wstate) : write_result * wstate :=
  match wsched st with
  | [] => (WCount (len b), {| sink := sink st ++ b; wsched := [] |})
  | WAccept k :: q =>
      let a := fst (take_upto (Npos k) b) in
      (WCount (len a), {| sink := sink st ++ a; wsched := q |})
  | WInterrupt :: q => (WIntr, {| sink := sink st; wsched := q |})
  | WFail Interrupted _ :: q => (WIntr, {| sink := sink st; wsched := q |})
  | WFail k m :: q => (WErr k m, {| sink := sink st; wsched := q |})
  | Refuse :: q => (WCount 0, {| sink := sink st; wsched := q |})
  end.
Definition swbudget (st : wstate) : N := len (wsched st).

Definition sw_write_all (shim : bool) : bytes -> wstate -> result (wstate * werr) :=
  if shim then write_all_shim swrite swbudget else write_all_std swrite swbudget.

(** ** The fixed buffer: [Write for &mut [u8]] *)
Record fstate := { fsink : bytes; room : N }.

(** [write]: copies [min(data.len(), self.len())] bytes and returns that count
    (the same text in std and in nostd_io.rs). *)
Definition fwrite (b : bytes) (st : fstate) : write_result * fstate :=
  let a := fst (take_upto (room st) b) in
  (WCount (len a), {| fsink := fsink st ++ a; room := room st - len a |}).

(** [write_all] per the std contract: the documented loop over [write]. *)
Definition fwrite_all_std : bytes -> fstate -> result (fstate * werr) :=
  write_all_std fwrite (fun _ => 0).
(** [write_all] of nostd_io.rs: [if self.write(data)? == data.len() { Ok(()) } else { Err(WriteZero..) }]. *)
Definition fwrite_all_shim (b : bytes) (st : fstate) : result (fstate * werr) :=
  match fwrite b st with
  | (WCount n, st') => if n =? len b then Ok (st', None) else Ok (st', Some (WriteZero, MWriteWhole))
  | (WIntr, st') => Ok (st', Some (Interrupted, MSimple))      (* unreachable: [fwrite] never fails *)
  | (WErr k m, st') => Ok (st', Some (k, m))
  end.
Definition fw_write_all (shim : bool) := if shim then fwrite_all_shim else fwrite_all_std.

(** ** [Write for Vec<u8>] *)
Definition vwrite (b : bytes) (v : bytes) : write_result * bytes := (WCount (len b), v ++ b).
Definition vwrite_all_std : bytes -> bytes -> result (bytes * werr) := write_all_std vwrite (fun _ => 0).
(** nostd_io.rs: [self.extend_from_slice(buf); Ok(())]. *)
Definition vwrite_all_shim (b : bytes) (v : bytes) : result (bytes * werr) := Ok (v ++ b, None).
Definition vw_write_all (shim : bool) := if shim then vwrite_all_shim else vwrite_all_std.

(** ** [to_writer]: the [write_all] calls of [ser t v], one after the other, up to the
    first failure; then the serialization error, if [ser] stopped with one. *)
Section ToWriter.
  Context {W : Type}.
  Variable wa : bytes -> W -> result (W * werr).

  Fixpoint feed (chunks : list bytes) (w : W) : result (W * werr) :=
    match chunks with
    | [] => Ok (w, None)
    | c :: r =>
        '(w', e) <- wa c w ;;
        match e with
        | None => feed r w'
        | Some _ => Ok (w', e)
        end
    end.

  Definition to_writer (t : ty) (v : val) (w : W) : result (W * werr) :=
    let o := ser t v in
    '(w', e) <- feed (fst o) w ;;
    match e with
    | Some _ => Ok (w', e)
    | None => Ok (w', snd o)
    end.
End ToWriter.

(** The byte stream a serialization produces (all of [enc t v] when that is [Ok]). *)
Definition stream (t : ty) (v : val) : bytes := concat (fst (ser t v)).

(** * [Read for &[u8]], contract and shim, and the op language *)

(** [read] on a slice: [min(buf.len(), self.len())] bytes (same text in both). *)
Definition slice_read (n : N) (bs : bytes) : read_result * bytes :=
  let '(a, r) := take_upto n bs in (RData a, r).

(** [read_exact] per the std contract: the documented default over [read].  On failure
    the contract leaves the reader's position unspecified. *)
Definition slice_read_exact_std : N -> bytes -> result (bytes * bytes) :=
  read_exact_std slice_read (fun _ => 0).
(** nostd_io.rs: [if buf.len() > self.len() { return Err(UnexpectedEof..) }] then split. *)
Definition slice_read_exact_shim (n : N) (bs : bytes) : result (bytes * bytes) :=
  if len bs <? n then Err UnexpectedEof MFillWhole
  else let '(a, r) := take_upto n bs in Ok (a, r).

(** The two as [reader]s for [dec] ([De.slice_reader] is the model the codec theorems use). *)
Definition slice_reader_std : reader bytes := {|
  rd_exact := slice_read_exact_std; rd_some := slice_read; rd_budget := fun _ => 0 |}.
Definition slice_reader_shim : reader bytes := {|
  rd_exact := slice_read_exact_shim; rd_some := slice_read; rd_budget := fun _ => 0 |}.

Inductive wtgt := TSlice | TVec.
Inductive io_op :=
| ORead (n : N)
| OReadExact (n : N)
| OWrite (w : wtgt) (b : bytes)
| OWriteAll (w : wtgt) (b : bytes)
| OByRef (o : io_op).            (* the same call through [by_ref()] / [&mut R], [&mut W] *)

Inductive io_outcome :=
| ReadGot (b : bytes)                       (* read: Ok(len b) and these bytes *)
| ExactGot (b : bytes)                      (* read_exact: Ok, buffer contents *)
| ExactErr (k : kind) (m : msg)
| Wrote (n : N)                             (* write: Ok(n) *)
| WroteAll                                  (* write_all: Ok *)
| WriteAllErr (k : kind) (m : msg)
| Stuck (w : N).                            (* model panic (fuel); excluded by theorem *)

(** The objects the ops act on; [poisoned]: a [read_exact] has failed on the slice
    reader, after which std does not specify what the reader holds. *)
Record world := { w_rd : bytes; w_fix : fstate; w_vec : bytes; poisoned : bool }.

(** The method table of one io implementation on these objects. *)
Record iomodel := {
  m_read : N -> bytes -> read_result * bytes;
  m_read_exact : N -> bytes -> result (bytes * bytes);
  (* where the reader stands after a failed read_exact (unspecified by std) *)
  m_after_failed_exact : N -> bytes -> bytes;
  m_fwrite : bytes -> fstate -> write_result * fstate;
  m_fwrite_all : bytes -> fstate -> result (fstate * werr);
  m_vwrite : bytes -> bytes -> write_result * bytes;
  m_vwrite_all : bytes -> bytes -> result (bytes * werr);
}.

(** std: the contract (default methods over the primitive calls); after a failed
    [read_exact] the documented loop has consumed everything. *)
Definition io_std : iomodel := {|
  m_read := slice_read;
  m_read_exact := slice_read_exact_std;
  m_after_failed_exact := fun _ _ => [];
  m_fwrite := fwrite;
  m_fwrite_all := fwrite_all_std;
  m_vwrite := vwrite;
  m_vwrite_all := vwrite_all_std;
|}.
(** shim: nostd_io.rs; a failed [read_exact] on a slice consumes nothing. *)
Definition io_shim : iomodel := {|
  m_read := slice_read;
  m_read_exact := slice_read_exact_shim;
  m_after_failed_exact := fun _ bs => bs;
  m_fwrite := fwrite;
  m_fwrite_all := fwrite_all_shim;
  m_vwrite := vwrite;
  m_vwrite_all := vwrite_all_shim;
|}.

(** [by_ref()] / the [&mut R], [&mut W] impls forward every method to the referent. *)
Definition by_ref (M : iomodel) : iomodel := {|
  m_read := fun n s => m_read M n s;
  m_read_exact := fun n s => m_read_exact M n s;
  m_after_failed_exact := fun n s => m_after_failed_exact M n s;
  m_fwrite := fun b s => m_fwrite M b s;
  m_fwrite_all := fun b s => m_fwrite_all M b s;
  m_vwrite := fun b s => m_vwrite M b s;
  m_vwrite_all := fun b s => m_vwrite_all M b s;
|}.

Definition wr_outcome (r : write_result) : io_outcome :=
  match r with
  | WCount n => Wrote n
  | WIntr => WriteAllErr Interrupted MSimple
  | WErr k m => WriteAllErr k m
  end.
Definition wa_outcome {W} (r : result (W * werr)) (w0 : W) : io_outcome * W :=
  match r with
  | Ok (w, None) => (WroteAll, w)
  | Ok (w, Some (k, m)) => (WriteAllErr k m, w)
  | Err k m => (WriteAllErr k m, w0)
  | Panic p => (Stuck p, w0)
  end.

Fixpoint run_op (M : iomodel) (o : io_op) (w : world) : io_outcome * world :=
  match o with
  | ORead n =>
      match m_read M n (w_rd w) with
      | (RData b, r) => (ReadGot b, {| w_rd := r; w_fix := w_fix w; w_vec := w_vec w; poisoned := poisoned w |})
      | (RIntr, r) => (ExactErr Interrupted MSimple, w)
      | (RFail k m, r) => (ExactErr k m, w)
      end
  | OReadExact n =>
      match m_read_exact M n (w_rd w) with
      | Ok (b, r) => (ExactGot b, {| w_rd := r; w_fix := w_fix w; w_vec := w_vec w; poisoned := poisoned w |})
      | Err k m => (ExactErr k m, {| w_rd := m_after_failed_exact M n (w_rd w); w_fix := w_fix w;
                                     w_vec := w_vec w; poisoned := true |})
      | Panic p => (Stuck p, w)
      end
  | OWrite TSlice b =>
      let '(r, f) := m_fwrite M b (w_fix w) in
      (wr_outcome r, {| w_rd := w_rd w; w_fix := f; w_vec := w_vec w; poisoned := poisoned w |})
  | OWrite TVec b =>
      let '(r, v) := m_vwrite M b (w_vec w) in
      (wr_outcome r, {| w_rd := w_rd w; w_fix := w_fix w; w_vec := v; poisoned := poisoned w |})
  | OWriteAll TSlice b =>
      let '(o, f) := wa_outcome (m_fwrite_all M b (w_fix w)) (w_fix w) in
      (o, {| w_rd := w_rd w; w_fix := f; w_vec := w_vec w; poisoned := poisoned w |})
  | OWriteAll TVec b =>
      let '(o, v) := wa_outcome (m_vwrite_all M b (w_vec w)) (w_vec w) in
      (o, {| w_rd := w_rd w; w_fix := w_fix w; w_vec := v; poisoned := poisoned w |})
  | OByRef o' => run_op (by_ref M) o' w
  end.

Fixpoint run_ops (M : iomodel) (ops : list io_op) (w : world) : list io_outcome * world :=
  match ops with
  | [] => ([], w)
  | o :: r =>
      let '(x, w1) := run_op M o w in
      let '(xs, w2) := run_ops M r w1 in
      (x :: xs, w2)
  end.
Definition run_ops_std := run_ops io_std.
Definition run_ops_shim := run_ops io_shim.

(** Is this op a read from the slice reader? *)
Fixpoint reads (o : io_op) : bool :=
  match o with
  | ORead _ | OReadExact _ => true
  | OByRef o' => reads o'
  | _ => false
  end.

(** What std specifies of a run: every io_outcome, except those of reads issued after a
    failed [read_exact] (the reader's position is then unspecified); the contents of
    both writers; the reader's remaining input unless poisoned. *)
Fixpoint specified (M : iomodel) (ops : list io_op) (w : world) : list (option io_outcome) :=
  match ops with
  | [] => []
  | o :: r =>
      let '(x, w1) := run_op M o w in
      (if poisoned w && reads o then None else Some x) :: specified M r w1
  end.
Definition observable (M : iomodel) (ops : list io_op) (w : world)
  : list (option io_outcome) * (bytes * N) * bytes * option bytes :=
  let w' := snd (run_ops M ops w) in
  (specified M ops w, (fsink (w_fix w'), room (w_fix w')), w_vec w',
   if poisoned w' then None else Some (w_rd w')).

Definition world0 (input : bytes) (cap : N) : world :=
  {| w_rd := input; w_fix := {| fsink := []; room := cap |}; w_vec := []; poisoned := false |}.
