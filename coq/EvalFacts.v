(** Facts about constant evaluation of discriminant expressions: strict evaluation
    implies lax evaluation, the syntactic refusal classes are unevaluable, [u8]
    values are bytes, and type-stable expressions have the same value at [isize]. *)
From Coq Require Import List ZArith NArith Bool Lia Arith.
From Borsh Require Import Discr DiscrFacts.
Import ListNotations.
Local Open Scope Z_scope.

(** * [chk], [fits], [wrap] *)
Lemma chk_some t z v : chk t z = Some v -> v = z /\ fits t z = true.
Proof. unfold chk. destruct (fits t z); [|discriminate]. intro H; inversion H; auto. Qed.

Lemma chk_fits t z : fits t z = true -> chk t z = Some z.
Proof. unfold chk. intros ->. reflexivity. Qed.

Lemma fits_U8 z : fits U8 z = true <-> 0 <= z <= 255.
Proof.
  unfold fits; simpl. rewrite andb_true_iff, !Z.leb_le. tauto.
Qed.

Lemma fits_ISize z : fits ISize z = true <-> - 2 ^ 63 <= z <= 2 ^ 63 - 1.
Proof.
  unfold fits; simpl ity_min; simpl ity_max. rewrite andb_true_iff, !Z.leb_le. tauto.
Qed.

Lemma fits_I32 z : fits I32 z = true <-> - 2 ^ 31 <= z <= 2 ^ 31 - 1.
Proof.
  unfold fits; simpl ity_min; simpl ity_max. rewrite andb_true_iff, !Z.leb_le. tauto.
Qed.

Lemma fits_U8_ISize z : fits U8 z = true -> fits ISize z = true.
Proof.
  rewrite fits_U8, fits_ISize. intro H.
  assert (2 ^ 63 = 9223372036854775808) by reflexivity. lia.
Qed.

Lemma wrap_signed_fits m z : 0 < m -> - m <= z <= m - 1 ->
  (if z mod (2 * m) <=? m - 1 then z mod (2 * m) else z mod (2 * m) - 2 * m) = z.
Proof.
  intros Hm Hz.
  destruct (Z_lt_le_dec z 0) as [N|P].
  - assert (E : z mod (2 * m) = z + 2 * m).
    { rewrite <- (Z_mod_plus_full z 1 (2 * m)). rewrite Z.mod_small; lia. }
    rewrite E. destruct (Z.leb_spec (z + 2 * m) (m - 1)); lia.
  - rewrite Z.mod_small by lia. destruct (Z.leb_spec z (m - 1)); lia.
Qed.

Lemma wrap_fits t z : fits t z = true -> wrap t z = z.
Proof.
  destruct t; intro H.
  - apply fits_ISize in H. unfold wrap. simpl bits. simpl ity_max.
    change (2 ^ 64) with (2 * 2 ^ 63). apply wrap_signed_fits; [reflexivity|lia].
  - apply fits_U8 in H. unfold wrap. simpl bits. apply Z.mod_small. change (2 ^ 8) with 256. lia.
  - apply fits_I32 in H. unfold wrap. simpl bits. simpl ity_max.
    change (2 ^ 32) with (2 * 2 ^ 31). apply wrap_signed_fits; [reflexivity|lia].
Qed.

Lemma arith_strict_lax t o z v : arith false t o z = Some v -> arith true t o z = Some v.
Proof.
  unfold arith. destruct o; auto.
  intro H. apply chk_some in H. destruct H as [-> F]. rewrite wrap_fits by exact F. reflexivity.
Qed.

(** * Strict evaluation implies lax evaluation, with the same value *)
Lemma eval_strict_lax : forall t e z, eval false t e = Some z -> eval true t e = Some z.
Proof.
  intros t e. revert t.
  induction e as [o n|e IH|u e IH|o op l IHl r IHr]; intros t z H.
  - exact H.
  - simpl in *. auto.
  - destruct u; simpl in *.
    + destruct t; try discriminate;
        (destruct (eval false _ e) as [x|] eqn:E; [|discriminate]; rewrite (IH _ _ E); exact H).
    + destruct (eval false t e) as [x|] eqn:E; [|discriminate]. rewrite (IH _ _ E). exact H.
  - destruct op; simpl in *;
      try (destruct (eval false t l) as [x|] eqn:El; [|discriminate]; rewrite (IHl _ _ El);
           destruct (eval false t r) as [y|] eqn:Er; [|discriminate]; rewrite (IHr _ _ Er);
           simpl in *;
           try (destruct (y =? 0); [discriminate|]);
           try (apply arith_strict_lax); exact H);
      (destruct (eval false t l) as [x|] eqn:El; [|discriminate]; rewrite (IHl _ _ El);
       destruct (eval false I32 r) as [y|] eqn:Er; [|discriminate]; rewrite (IHr _ _ Er);
       exact H).
Qed.

Lemma eval_lax_none t e : eval true t e = None -> eval false t e = None.
Proof.
  intro H. destruct (eval false t e) as [z|] eqn:E; [|reflexivity].
  apply eval_strict_lax in E. congruence.
Qed.

(** * The syntactic classes *)
Lemma has_neg_eval : forall lax t e, has_neg t e = true -> eval lax t e = None.
Proof.
  intros lax t e. revert t.
  induction e as [o n|e IH|u e IH|o op l IHl r IHr]; intros t H.
  - discriminate.
  - simpl in *. auto.
  - destruct u; simpl in *.
    + destruct t; try reflexivity; rewrite (IH _ H); reflexivity.
    + rewrite (IH _ H). reflexivity.
  - destruct op; simpl in H; apply orb_prop in H; simpl;
      (destruct H as [H|H];
       [rewrite (IHl _ H); reflexivity
       |rewrite (IHr _ H); destruct (eval lax t l); reflexivity]).
Qed.

Lemma has_big_lit_eval : forall lax t e, has_big_lit t e = true -> eval lax t e = None.
Proof.
  intros lax t e. revert t.
  induction e as [o n|e IH|u e IH|o op l IHl r IHr]; intros t H.
  - simpl in *. unfold chk. apply negb_true_iff in H. rewrite H. reflexivity.
  - simpl in *. auto.
  - destruct u; simpl in *.
    + destruct t; try reflexivity; rewrite (IH _ H); reflexivity.
    + rewrite (IH _ H). reflexivity.
  - destruct op; simpl in H; apply orb_prop in H; simpl;
      (destruct H as [H|H];
       [rewrite (IHl _ H); reflexivity
       |rewrite (IHr _ H); destruct (eval lax t l); reflexivity]).
Qed.

(** * [u8] values are bytes *)
Lemma log2_byte a : 0 <= a <= 255 -> Z.log2 a < 8.
Proof.
  intro H. destruct (Z.eq_dec a 0) as [->|N]; [reflexivity|].
  apply Z.log2_lt_pow2; [lia|]. change (2 ^ 8) with 256. lia.
Qed.

Lemma byte_of_log2 a : 0 <= a -> Z.log2 a < 8 -> 0 <= a <= 255.
Proof.
  intros P H. destruct (Z.eq_dec a 0) as [->|N]; [lia|].
  apply Z.log2_lt_pow2 in H; [|lia]. change (2 ^ 8) with 256 in H. lia.
Qed.

Lemma land_byte a b : 0 <= a <= 255 -> 0 <= b <= 255 -> 0 <= Z.land a b <= 255.
Proof.
  intros A B. assert (P : 0 <= Z.land a b) by (apply Z.land_nonneg; lia).
  apply byte_of_log2; [exact P|].
  pose proof (Z.log2_land a b ltac:(lia) ltac:(lia)).
  pose proof (log2_byte a A). pose proof (log2_byte b B). lia.
Qed.

Lemma lor_byte a b : 0 <= a <= 255 -> 0 <= b <= 255 -> 0 <= Z.lor a b <= 255.
Proof.
  intros A B. assert (P : 0 <= Z.lor a b) by (apply Z.lor_nonneg; lia).
  apply byte_of_log2; [exact P|].
  rewrite Z.log2_lor by lia.
  pose proof (log2_byte a A). pose proof (log2_byte b B). lia.
Qed.

Lemma lxor_byte a b : 0 <= a <= 255 -> 0 <= b <= 255 -> 0 <= Z.lxor a b <= 255.
Proof.
  intros A B. assert (P : 0 <= Z.lxor a b) by (apply Z.lxor_nonneg; lia).
  apply byte_of_log2; [exact P|].
  pose proof (Z.log2_lxor a b ltac:(lia) ltac:(lia)).
  pose proof (log2_byte a A). pose proof (log2_byte b B). lia.
Qed.

Lemma some_inj {A} (a b : A) : Some a = Some b -> a = b.
Proof. congruence. Qed.

Lemma eval_u8_range : forall e z, eval false U8 e = Some z -> 0 <= z <= 255.
Proof.
  induction e as [o n|e IH|u e IH|o op l IHl r IHr]; intros z H.
  - cbn [eval obind bits] in H. apply chk_some in H. destruct H as [-> F]. apply fits_U8. exact F.
  - cbn [eval obind bits] in H. auto.
  - destruct u; cbn [eval obind bits] in H; [discriminate|].
    destruct (eval false U8 e) as [x|] eqn:E; [|discriminate]. cbn [eval obind bits] in H.
    specialize (IH _ eq_refl). apply some_inj in H; subst z. lia.
  - assert (A : forall v, arith false U8 o v = Some z -> 0 <= z <= 255).
    { intros v Hv. unfold arith in Hv. apply chk_some in Hv. destruct Hv as [-> F]. apply fits_U8. exact F. }
    destruct op; cbn [eval obind bits] in H;
      (destruct (eval false U8 l) as [x|] eqn:El; [|discriminate]; specialize (IHl _ eq_refl));
      try (destruct (eval false U8 r) as [y|] eqn:Er; [|discriminate]; specialize (IHr _ eq_refl); cbn [eval obind bits] in H;
           try (destruct (y =? 0); [discriminate|]);
           try (apply A in H; exact H)).
    + (* Shl *)
      cbn [eval obind bits] in H. destruct (eval false I32 r) as [s|]; [|discriminate]. cbn [eval obind bits] in H.
      destruct ((0 <=? s) && (s <? 8)); [|discriminate]. apply some_inj in H; subst z.
      unfold wrap. simpl bits. change (2 ^ 8) with 256.
      pose proof (Z.mod_pos_bound (x * 2 ^ s) 256 ltac:(lia)). lia.
    + (* Shr *)
      cbn [eval obind bits] in H. destruct (eval false I32 r) as [s|]; [|discriminate]. cbn [eval obind bits] in H.
      destruct ((0 <=? s) && (s <? 8)) eqn:B; [|discriminate]. apply some_inj in H; subst z.
      apply andb_prop in B. destruct B as [B1 B2]. apply Z.leb_le in B1.
      assert (0 < 2 ^ s) by (apply Z.pow_pos_nonneg; lia).
      split.
      * apply Z.div_pos; lia.
      * assert (x / 2 ^ s <= x) by (apply Z.div_le_upper_bound; nia). lia.
    + apply some_inj in H; subst z. apply land_byte; assumption.
    + apply some_inj in H; subst z. apply lxor_byte; assumption.
    + apply some_inj in H; subst z. apply lor_byte; assumption.
Qed.

(** * Type-stable expressions *)
Lemma chk_U8_ISize v z : chk U8 v = Some z -> chk ISize v = Some z.
Proof.
  intro H. apply chk_some in H. destruct H as [-> F]. apply chk_fits. apply fits_U8_ISize. exact F.
Qed.

Lemma stable_agree : forall e z, stable e = true -> eval false U8 e = Some z -> eval false ISize e = Some z.
Proof.
  induction e as [o n|e IH|u e IH|o op l IHl r IHr]; intros z S H.
  - simpl in *. apply chk_U8_ISize. exact H.
  - simpl in *. auto.
  - destruct u; simpl in *; discriminate.
  - destruct op; cbn [eval obind bits stable] in S, H |- *;
      try (apply andb_prop in S; destruct S as [Sl Sr];
           destruct (eval false U8 l) as [x|] eqn:El; [|discriminate];
           destruct (eval false U8 r) as [y|] eqn:Er; [|discriminate];
           rewrite (IHl _ Sl eq_refl), (IHr _ Sr eq_refl); cbn [eval obind bits stable] in H |- *;
           try (destruct (y =? 0); [discriminate|]);
           try (unfold arith in *; apply chk_U8_ISize); exact H).
    + (* Shl *)
      apply andb_prop in S. destruct S as [Sl Sr].
      destruct (eval false U8 l) as [x|] eqn:El; [|discriminate].
      rewrite (IHl _ Sl eq_refl). cbn [obind] in H |- *.
      destruct (eval false I32 r) as [s|] eqn:Er; [|discriminate]. cbn [obind] in H |- *.
      destruct ((0 <=? s) && (s <? 8)) eqn:B; [|discriminate].
      apply andb_prop in B. destruct B as [B1 B2]. apply Z.leb_le in B1. apply Z.ltb_lt in B2.
      assert (B' : (0 <=? s) && (s <? 64) = true).
      { apply andb_true_intro. split; [apply Z.leb_le|apply Z.ltb_lt]; lia. }
      rewrite B'. apply Z.leb_le in Sr.
      pose proof (eval_u8_range l x El) as R.
      assert (0 < 2 ^ s) by (apply Z.pow_pos_nonneg; lia).
      assert (F : fits U8 (x * 2 ^ s) = true) by (apply fits_U8; nia).
      rewrite (wrap_fits U8 _ F) in H. rewrite (wrap_fits ISize _ (fits_U8_ISize _ F)). exact H.
    + (* Shr *)
      destruct (eval false U8 l) as [x|] eqn:El; [|discriminate].
      rewrite (IHl _ S eq_refl). cbn [obind] in H |- *.
      destruct (eval false I32 r) as [s|] eqn:Er; [|discriminate]. cbn [obind] in H |- *.
      destruct ((0 <=? s) && (s <? 8)) eqn:B; [|discriminate].
      apply andb_prop in B. destruct B as [B1 B2]. apply Z.leb_le in B1. apply Z.ltb_lt in B2.
      assert (B' : (0 <=? s) && (s <? 64) = true).
      { apply andb_true_intro. split; [apply Z.leb_le|apply Z.ltb_lt]; lia. }
      rewrite B'. exact H.
Qed.

(** * The language rule read at [u8] and at [isize] *)
Definition stable_opt (d : option expr) : bool :=
  match d with Some e => stable e | None => true end.

Lemma rust_discrs_from_agree : forall ds n8 nI,
  forallb stable_opt ds = true ->
  (forall z, n8 = Some z -> nI = Some z) ->
  forall i z, nth i (rust_discrs_from U8 n8 ds) None = Some z ->
              nth i (rust_discrs_from ISize nI ds) None = Some z.
Proof.
  induction ds as [|d ds IH]; intros n8 nI S N i z H.
  - destruct i; discriminate.
  - simpl in S. apply andb_prop in S. destruct S as [Sd S].
    set (t8 := match d with Some e => eval false U8 e | None => obind n8 (chk U8) end) in *.
    set (tI := match d with Some e => eval false ISize e | None => obind nI (chk ISize) end) in *.
    assert (T : forall v, t8 = Some v -> tI = Some v).
    { intros v Hv. subst t8 tI. destruct d as [e|].
      - apply stable_agree; assumption.
      - destruct n8 as [m|]; [|discriminate]. rewrite (N m eq_refl). simpl in *.
        apply chk_U8_ISize. exact Hv. }
    simpl in H |- *. fold t8 in H. fold tI.
    destruct i as [|i].
    + apply T. exact H.
    + apply (IH _ _ S) with (2 := H).
      intros v Hv. destruct t8 as [m|]; [|discriminate]. rewrite (T m eq_refl). exact Hv.
Qed.

Lemma rust_discrs_agree : forall ds,
  forallb (fun d => match d with Some e => stable e | None => true end) ds = true ->
  forall i z, nth i (rust_discrs U8 ds) None = Some z -> nth i (rust_discrs ISize ds) None = Some z.
Proof.
  intros ds S i z H. unfold rust_discrs in *.
  apply (rust_discrs_from_agree ds (Some 0) (Some 0)); auto.
Qed.
