(** The definitions of [schema_of t] are listed in strictly ascending name order
    ([BTreeMap] iteration order = the order they are serialized in), and the consequence for
    C17: the ordering part of "the container is a Rust value" need not be assumed.

    Method: a generic principle -- any property of the map that every [add_definition]
    preserves is preserved by [defs_of] -- instantiated with sortedness. *)
From Coq Require Import String Ascii List NArith ZArith Bool Lia.
From Borsh Require Import Bytes BytesFacts Result LoopFacts Ty TyInd Ser De Entry OrderFacts
     Schema SchemaFns SchemaOf SchemaOfFacts WithSchema WithSchemaFacts.
Import ListNotations.
Local Open Scope N_scope.
Local Open Scope string_scope.
Local Open Scope list_scope.

Section Inv.
  Variable I : defmap -> Prop.
  Hypothesis HI : forall d def a b, I a -> add_definition d def a = Ok b -> I b.

  Definition keeps (f : defmap -> result defmap) : Prop := forall a b, I a -> f a = Ok b -> I b.

  Lemma keeps_add d def : keeps (add_definition d def).
  Proof. intros a b Ha H. eapply HI; eauto. Qed.
  Lemma keeps_ret : keeps (fun ds => Ok ds).
  Proof. intros a b Ha H. inversion H; subst. exact Ha. Qed.
  Lemma keeps_bind f g : keeps f -> keeps g -> keeps (fun ds => ds1 <- f ds ;; g ds1).
  Proof. intros Hf Hg a b Ha H. apply bind_ok in H. destruct H as (a1 & H1 & H2). eauto. Qed.
  Lemma keeps_derived name fs rec : keeps rec -> keeps (derived_struct name fs rec).
  Proof.
    intros Hr a b Ha H. unfold derived_struct in H. apply bind_ok in H. destruct H as (a1 & H1 & H2).
    pose proof (HI _ _ _ _ Ha H1) as H1'. destruct (lookup a name); [inversion H2; subst; exact H1'|eauto].
  Qed.
  Lemma keeps_each (f : ty -> defmap -> result defmap) ts : Forall (fun t => keeps (f t)) ts -> keeps (defs_each f ts).
  Proof.
    induction 1 as [|t tr Ht Htr IH]; cbn [defs_each]; [apply keeps_ret|].
    exact (keeps_bind _ _ Ht IH).
  Qed.
  Lemma keeps_fields (f : ty -> defmap -> result defmap) ts : Forall (fun t => keeps (f t)) ts ->
    forall sk, keeps (defs_fields f ts sk).
  Proof.
    induction 1 as [|t tr Ht Htr IH]; intros sk; cbn [defs_fields]; [apply keeps_ret|].
    destruct sk as [|[|] sr]; [exact (keeps_bind _ _ Ht (IH []))|apply IH|exact (keeps_bind _ _ Ht (IH sr))].
  Qed.
  Lemma keeps_ip n : keeps (ip_defs n).
  Proof.
    unfold ip_defs. apply keeps_derived. apply (keeps_bind (add_definition _ _) u8_defs); apply keeps_add.
  Qed.

  Definition keepsQ (t : ty) : Prop :=
    keeps (defs_of t) /\ (forall fn sk ts, t = TProd (PVariant fn sk) ts -> Forall (fun x => keeps (defs_of x)) ts).

  Theorem defs_of_keeps : forall t, keepsQ t.
  Proof.
    induction t as [p|u|k|k|k t' IH|n t' IH|k ts IH|k vs IH|w t' IH] using ty_ind';
      (split; [|try (intros ? ? ? E; discriminate E)]); try (destruct IH as [IH _]).
    - cbn [defs_of]. apply keeps_add.
    - destruct u; cbn [defs_of]; apply keeps_add.
    - destruct k; cbn [defs_of]; [apply keeps_ip|apply keeps_ip|apply keeps_ret].
    - destruct k; cbn [defs_of]; try apply keeps_ret;
        (apply (keeps_bind (add_definition _ _)); [apply keeps_add|apply keeps_add]).
    - cbn [defs_of]. apply (keeps_bind (add_definition _ _)); [apply keeps_add|exact IH].
    - cbn [defs_of]. apply (keeps_bind (add_definition _ _)); [apply keeps_add|exact IH].
    - assert (IH' : Forall (fun x => keeps (defs_of x)) ts) by (eapply Forall_impl; [|exact IH]; intros x [H _]; exact H).
      destruct k as [|r| | |name fn sk|fn sk]; cbn [defs_of]; try apply keeps_ret.
      + apply (keeps_bind (add_definition _ _)); [apply keeps_add|]. now apply (keeps_each (fun x => defs_of x)).
      + apply (keeps_bind (add_definition _ _)); [apply keeps_add|]. destruct ts as [|t0 tr]; [apply keeps_ret|exact (Forall_inv IH')].
      + apply keeps_derived. now apply (keeps_fields (fun x => defs_of x)).
    - intros fn sk ts0 E. inversion E; subst. eapply Forall_impl; [|exact IH]. intros x [H _]. exact H.
    - assert (IH' : Forall (fun x => keeps (defs_of x)) vs) by (eapply Forall_impl; [|exact IH]; intros x [H _]; exact H).
      destruct k as [| | | |name vn tags]; cbn [defs_of]; try apply keeps_ret.
      + destruct vs as [|v0 [|t1 [|? ?]]]; try apply keeps_ret.
        apply (keeps_bind (add_definition _ _)); [apply keeps_add|].
        apply (keeps_bind (defs_of t1) unit_defs); [exact (Forall_inv (Forall_inv_tail IH'))|apply keeps_add].
      + destruct vs as [|t0 [|t1 [|? ?]]]; try apply keeps_ret.
        apply (keeps_bind (add_definition _ _)); [apply keeps_add|].
        apply (keeps_bind (defs_of t0) (defs_of t1)); [exact (Forall_inv IH')|exact (Forall_inv (Forall_inv_tail IH'))].
      + unfold ipaddr_defs. apply (keeps_bind (derived_struct _ _ _)); [apply keeps_derived, keeps_ip|].
        apply (keeps_bind (derived_struct _ _ _)); [apply keeps_derived, keeps_ip|apply keeps_add].
      + match goal with |- keeps (fun ds => ds1 <- ?G vs 0%nat ds ;; _) => set (go := G) end.
        apply (keeps_bind (go vs 0%nat)); [|apply keeps_add].
        assert (Hgo : forall l i, Forall keepsQ l -> keeps (go l i)).
        { induction l as [|v vr IHl]; intros i Hf; [apply keeps_ret|]. cbn [go]. fold go.
          apply (keeps_bind _ (go vr (S i))); [|apply IHl; exact (Forall_inv_tail Hf)].
          destruct v as [| | | | | |[| | | | |fn sk] ts| |]; try apply keeps_ret.
          apply keeps_derived. apply (keeps_fields (fun x => defs_of x)). exact (proj2 (Forall_inv Hf) fn sk ts eq_refl). }
        apply Hgo. exact IH.
    - cbn [defs_of]. exact IH.
  Qed.
End Inv.

(** * Sortedness *)
Fixpoint sorted_keys (l : defmap) : bool :=
  match l with
  | [] => true
  | (k1, _) :: r =>
      match r with
      | [] => true
      | (k2, _) :: _ => match String.compare k1 k2 with Lt => sorted_keys r | _ => false end
      end
  end.

Lemma sorted_tail x l : sorted_keys (x :: l) = true -> sorted_keys l = true.
Proof. destruct x as [k1 v1]. destruct l as [|[k2 v2] r]; [reflexivity|]. cbn [sorted_keys]. destruct (String.compare k1 k2); try discriminate. auto. Qed.

Lemma insert_sorted k v l : sorted_keys l = true -> lookup l k = None -> sorted_keys (insert k v l) = true.
Proof.
  induction l as [|[k0 v0] r IH]; intros Hs Hl; [reflexivity|].
  cbn [lookup] in Hl. destruct (String.eqb k0 k) eqn:E; [discriminate|].
  cbn [insert]. destruct (String.compare k k0) eqn:C.
  - apply String.compare_eq_iff in C. subst. rewrite String.eqb_refl in E. discriminate.
  - cbn [sorted_keys]. now rewrite C.
  - assert (C' : String.compare k0 k = Lt) by (rewrite String.compare_antisym, C; reflexivity).
    specialize (IH (sorted_tail _ _ Hs) Hl).
    destruct r as [|[k1 v1] r'].
    + cbn [insert sorted_keys]. now rewrite C'.
    + cbn [insert] in *. destruct (String.compare k k1) eqn:C1.
      * cbn [sorted_keys] in Hs |- *. destruct (String.compare k0 k1); try discriminate. exact IH.
      * change (sorted_keys ((k0, v0) :: (k, v) :: (k1, v1) :: r') = true). cbn [sorted_keys]. rewrite C'. exact IH.
      * cbn [sorted_keys] in Hs |- *. destruct (String.compare k0 k1); try discriminate. exact IH.
Qed.

Lemma add_definition_sorted d def a b : sorted_keys a = true -> add_definition d def a = Ok b -> sorted_keys b = true.
Proof.
  unfold add_definition. intros Hs H. destruct (lookup a d) as [e|] eqn:L.
  - destruct (definition_eqb e def); inversion H; subst; exact Hs.
  - inversion H; subst. now apply insert_sorted.
Qed.

Theorem schema_of_sorted t c : schema_of t = Ok c -> sorted_keys (defs c) = true.
Proof.
  unfold schema_of. intros H. apply bind_ok in H. destruct H as (ds & H1 & H2). inversion H2; subst. cbn [defs].
  exact (proj1 (defs_of_keeps (fun m => sorted_keys m = true) add_definition_sorted t) [] ds eq_refl H1).
Qed.
Print Assumptions schema_of_sorted.

(** * Consequence for C17: the ordering part of "the container is a Rust value" is a theorem *)
Lemma str_cmp a b : lex_bytes (map VN (str_ns a)) (map VN (str_ns b)) = String.compare a b.
Proof.
  revert b; induction a as [|x a IH]; intros [|y b]; cbn [str_ns map]; try reflexivity.
  unfold lex_bytes in *. cbn [lex_by String.compare]. unfold Ascii.compare.
  destruct (N.compare (N_of_ascii x) (N_of_ascii y)); auto.
Qed.

Lemma forallb_map_comm {A B} (f : B -> bool) (g : A -> B) l : forallb (fun x => f (g x)) l = true -> forallb f (map g l) = true.
Proof. induction l as [|x r IH]; cbn; [reflexivity|]. intros H. apply andb_true_iff in H. destruct H as [H1 H2]. now rewrite H1, IH. Qed.

Definition pair_ty : ty := TProd PTuple [t_string; ty_definition].
Definition entry_val (kv : string * definition) : val := VL [str_val (fst kv); def_val (snd kv)].

(** names are UTF-8 strings, numbers fit their fields -- no statement about order *)
Definition container_fits (sc : container) : bool :=
  has_ty t_string (str_val (root sc)) && forallb (fun kv => has_ty pair_ty (entry_val kv)) (defs sc).

Lemma sorted_sa ds : sorted_keys ds = true ->
  strictly_ascending (cmp_val t_string) (key_val SBTreeMap) (map entry_val ds) = true.
Proof.
  induction ds as [|[k1 v1] r IH]; intros Hs; [reflexivity|].
  destruct r as [|[k2 v2] r']; [reflexivity|].
  cbn [sorted_keys] in Hs. destruct (String.compare k1 k2) eqn:C; try discriminate.
  specialize (IH Hs). cbn [map] in *. cbn [strictly_ascending].
  unfold entry_val at 1 2. cbn [fst snd key_val is_map]. unfold str_val, t_string. cbn [cmp_val].
  rewrite str_cmp, C. exact IH.
Qed.

Theorem has_ty_container sc :
  container_fits sc = true -> sorted_keys (defs sc) = true -> has_ty ty_container (container_to_val sc) = true.
Proof.
  unfold container_fits. intros Hf Hs. apply andb_true_iff in Hf. destruct Hf as [Hr He].
  unfold ty_container, container_to_val. cbn [has_ty all2]. rewrite Hr. cbn [andb]. rewrite andb_true_r.
  unfold ty_defmap. fold pair_ty. cbn [has_ty].
  change (map (fun kv : string * definition => VL [str_val (fst kv); def_val (snd kv)]) (defs sc)) with (map entry_val (defs sc)).
  rewrite forallb_map_comm by exact He. cbn [andb]. cbn [key_ty is_map]. unfold pair_ty at 1. exact (sorted_sa _ Hs).
Qed.

Theorem schema_container_typed t sc :
  schema_of t = Ok sc -> container_fits sc = true -> has_ty ty_container (container_to_val sc) = true.
Proof. intros H Hf. apply has_ty_container; [exact Hf|exact (schema_of_sorted t sc H)]. Qed.

Theorem with_schema_round_trip_fits c t v bs sc :
  wf t = true -> has_ty t v = true -> schema_of t = Ok sc -> container_fits sc = true ->
  try_to_vec_with_schema t v = Ok bs -> try_from_slice_with_schema c t bs = Ok (logical t v).
Proof.
  intros Hwf Hty Hsc Hf H. exact (with_schema_round_trip c t v bs sc Hwf Hty Hsc (schema_container_typed t sc Hsc Hf) H).
Qed.

Theorem with_schema_foreign_fits c t u v bs sct scu :
  schema_of t = Ok sct -> schema_of u = Ok scu -> container_fits sct = true ->
  container_to_val sct <> container_to_val scu -> try_to_vec_with_schema t v = Ok bs ->
  try_from_slice_with_schema c u bs = Err InvalidData MSchemaMismatch \/
  exists m, from_slice c (TProd PTuple [ty_container; u]) bs = Err InvalidData m /\
            try_from_slice_with_schema c u bs = Err InvalidData m.
Proof.
  intros Ht Hu Hf Hne H. exact (with_schema_foreign c t u v bs sct scu Ht Hu (schema_container_typed t sct Ht Hf) Hne H).
Qed.
Print Assumptions with_schema_round_trip_fits.
Print Assumptions with_schema_foreign_fits.
