(** BorshSchema derive on generic items: the name [declaration()] returns and the per-variant
    inner structs of an enum (borsh-derive/src/internals/schema/mod.rs: [declaration],
    [mentions_dropped_param], [filter_used_params]; schema/enums/mod.rs: [inner_struct_definition];
    generics.rs: [type_contains_some_param], [process_for_params], [at_least_one_hit]).
    Transcription of the code after the F9 repair (909991a).  Definitions only. *)
From Coq Require Import String List Bool Arith.
From Borsh Require Import Item Generics.
Import ListNotations.
Local Open Scope string_scope.
Local Open Scope list_scope.

(** * [declaration]: [Name] or [Name<d1, d2>] from the declarations of the bounded types *)
Definition declaration (ident_str : string) (param_decls : list string) : string :=
  match param_decls with
  | [] => ident_str
  | _ => ident_str ++ "<" ++ String.concat ", " param_decls ++ ">"
  end.
(** [decl_of t]: what [<t as BorshSchema>::declaration()] returns at the instantiation at hand *)
Definition schema_declaration (decl_of : gty -> string) (it : gitem) : string :=
  declaration (gi_name it) (map decl_of (schema_declaration_params it)).

(** * [process_for_params] / [at_least_one_hit] *)
Definition push_param (acc : list string) (p : string) : list string := if mem p acc then acc else acc ++ [p].
Definition contains_key (k : string) (m : amap) : bool :=
  match amap_get k m with Some _ => true | None => false end.
Definition process_for_params (f : finder) : list string :=
  fold_left (fun acc param =>
               let acc := if mem param (relevant_type_params f) then push_param acc param else acc in
               if contains_key param (associated_type_params_usage f) then push_param acc param else acc)
            (all_type_params f) [].
Definition at_least_one_hit (f : finder) : bool :=
  negb (match relevant_type_params f with [] => true | _ => false end) ||
  negb (match associated_type_params_usage f with [] => true | _ => false end).
(** [type_contains_some_param]; [params] is a [HashSet] there, the order does not matter *)
Definition type_contains_some_param (t : gty) (params : list string) : bool :=
  at_least_one_hit (visit_type_top_level (finder_from_params params) t).

(** [mentions_dropped_param]: any identifier token of the predicate is a dropped parameter *)
Definition mentions_dropped_param (p : wpred) (dropped : list string) : bool :=
  existsb (fun k => match k with TI s => mem s dropped | TP _ => false end) (toks_pred p).

(** [filter_used_params] *)
Definition filter_used_params (ps : list gparam) (w : list wpred) (not_skipped_type_params : list string)
    : list gparam * list wpred :=
  let dropped := filter (fun id => negb (mem id not_skipped_type_params)) (type_params ps) in
  let new_params := filter (fun p => match p with
                                     | GPLifetime _ | GPConst _ => true
                                     | GPType id _ => mem id not_skipped_type_params
                                     end) ps in
  let new_predicates :=
    filter (fun p => match p with
                     | WLifetime _ => true
                     | WUser bounded _ | WBound bounded _ =>
                         type_contains_some_param bounded not_skipped_type_params &&
                         negb (mentions_dropped_param p dropped)
                     end) w in
  (new_params, new_predicates).

(** [inner_struct_definition]: the visitor is run UNCONDITIONALLY over the variant's fields
    ([visit_struct_fields_unconditional]: skipped fields too, attributes not consulted) *)
Definition variant_params (it : gitem) (v : gvariant) : list string :=
  process_for_params (fold_left visit_field (gv_fields v) (finder_new (without_defaults (gi_params it)))).
(** [r#type] -> [type]: a raw identifier is not a valid fragment of a longer identifier *)
Definition unraw (s : string) : string :=
  if String.prefix "r#" s then String.substring 2 (String.length s - 2) s else s.

Definition inner_struct_generics (it : gitem) (v : gvariant) : list gparam * list wpred :=
  filter_used_params (without_defaults (gi_params it)) (gi_where it) (variant_params it v).
(** the inner struct [EnumVariant], which itself derives BorshSchema *)
Definition inner_struct (it : gitem) (v : gvariant) : gitem :=
  {| gi_name := unraw (gi_name it) ++ unraw (gv_name v);     (* the fragments lose their [r#] (F16) *)
     gi_params := fst (inner_struct_generics it v);
     gi_where := snd (inner_struct_generics it v);
     gi_body := GStruct (gv_fields v) |}.

(** the inner struct of variant [v] declares every type parameter of the enum that the variant's fields name
    (the statement [C08gen_inner_scope_refuted] shows to fail in general; an item for which it is false does
    not compile with the schema derive: E0401, findings F14 / F19).  The correspondence driver prints this
    verdict per variant. *)
Definition inner_scope_ok (it : gitem) (v : gvariant) : bool :=
  forallb (fun P =>
             forallb (fun f => negb (uses P (gf_ty f)) ||
                               existsb (String.eqb P) (type_params (gi_params (inner_struct it v))))
                     (gv_fields v))
          (type_params (gi_params it)).

(** for display: the names of the generics and the rendered where-clause of the inner struct of the
    [v]-th variant *)
Definition inner_view (it : gitem) (v : nat) : list string * list string :=
  match gi_body it with
  | GEnum vs =>
      match nth_error vs v with
      | Some va => (map (fun p => match p with GPType id _ | GPLifetime id | GPConst id => id end)
                        (gi_params (inner_struct it va)),
                    map render_pred (gi_where (inner_struct it va)))
      | None => ([], [])
      end
  | _ => ([], [])
  end.
