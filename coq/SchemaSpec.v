(** Specifications for the schema walkers, written without reference to the
    transcriptions in SchemaFns.v (no stack, no count multiplier, no machine
    arithmetic).  No proofs in this file. *)
From Coq Require Import String List NArith ZArith Bool.
From Borsh Require Import Schema SchemaFns.
Import ListNotations.
Local Open Scope N_scope.

(** * Zero-sized declarations (least fixed point) *)
Inductive ZeroSized (c : container) : string -> Prop :=
| ZS_prim d :
    get_definition c d = Some (Primitive 0) -> ZeroSized c d
| ZS_seq_empty d lo hi el :                      (* untagged, length range {0} *)
    get_definition c d = Some (Sequence 0 lo hi el) -> lo = 0 -> hi = 0 -> ZeroSized c d
| ZS_seq_elems d lo hi el :                      (* untagged, zero-sized elements *)
    get_definition c d = Some (Sequence 0 lo hi el) -> ZeroSized c el -> ZeroSized c d
| ZS_tuple d els :
    get_definition c d = Some (Tuple els) -> Forall (ZeroSized c) els -> ZeroSized c d
| ZS_enum d vs :                                 (* untagged union of zero-sized variants *)
    get_definition c d = Some (Enum 0 vs) -> Forall (ZeroSized c) (map variant_decl vs) -> ZeroSized c d
| ZS_struct d fs :
    get_definition c d = Some (Struct fs) -> Forall (ZeroSized c) (field_decls fs) -> ZeroSized c d.

(** * Encoded sizes of the finite values a declaration describes *)
Definition sumN (l : list N) : N := fold_right N.add 0 l.

Inductive sizes (c : container) : string -> N -> Prop :=
| Sz_prim d s :
    get_definition c d = Some (Primitive s) -> sizes c d s
| Sz_seq d lw lo hi el ns :                      (* a length in the range, then that many elements *)
    get_definition c d = Some (Sequence lw lo hi el) ->
    lo <= N.of_nat (length ns) -> N.of_nat (length ns) <= hi ->
    Forall (sizes c el) ns ->
    sizes c d (lw + sumN ns)
| Sz_tuple d els ns :
    get_definition c d = Some (Tuple els) -> Forall2 (sizes c) els ns -> sizes c d (sumN ns)
| Sz_enum d tw vs v n :                          (* the tag, then one variant *)
    get_definition c d = Some (Enum tw vs) -> In v vs -> sizes c (variant_decl v) n ->
    sizes c d (tw + n)
| Sz_struct d fs ns :
    get_definition c d = Some (Struct fs) -> Forall2 (sizes c) (field_decls fs) ns -> sizes c d (sumN ns).

Definition Inhabited (c : container) (d : string) : Prop := exists n, sizes c d n.

(** * Reachability *)
Definition Edge (c : container) (d d' : string) : Prop :=
  exists def, get_definition c d = Some def /\ In d' (members def).

Inductive Reach (c : container) : string -> string -> Prop :=
| Reach_refl d : Reach c d d
| Reach_step d m d' : Edge c d m -> Reach c m d' -> Reach c d d'.

(** [x] lies on a cycle of the declaration graph. *)
Definition OnCycle (c : container) (x : string) : Prop := exists m, Edge c x m /\ Reach c m x.

(** * Well-formed containers (the conjunction in C10's statement) *)

(** A legal length width: 0, 1, 2, 4 or 8 bytes, and wide enough for the largest length. *)
Definition width_ok (lw hi : N) : Prop :=
  lw = 0 \/ ((lw = 1 \/ lw = 2 \/ lw = 4 \/ lw = 8) /\ hi < 2 ^ (8 * lw)).

(** A sequence is fixed-size (an array) when it is untagged and its range is one number;
    every other sequence is dynamically sized. *)
Definition is_array (lw lo hi : N) : Prop := lw = 0 /\ lo = hi.

Definition def_ok (c : container) (def : definition) : Prop :=
  match def with
  | Sequence lw lo hi el =>
      is_array lw lo hi \/ (lo <= hi /\ width_ok lw hi /\ ~ ZeroSized c el)
  | Enum tw _ => tw <= 8
  | _ => True
  end.

Definition WellFormed (c : container) : Prop :=
  forall d, Reach c (root c) d -> exists def, get_definition c d = Some def /\ def_ok c def.

(** What each validation error claims about the declaration it carries. *)
Definition defect (c : container) (e : verr) : Prop :=
  match e with
  | VMissingDefinition d => get_definition c d = None
  | EmptyLengthRange d =>
      exists lw lo hi el, get_definition c d = Some (Sequence lw lo hi el) /\ hi < lo
  | TagNotPowerOfTwo d =>
      exists lw lo hi el, get_definition c d = Some (Sequence lw lo hi el) /\ ~ is_array lw lo hi /\
                          (lw = 3 \/ lw = 5 \/ lw = 6 \/ lw = 7)
  | TagTooNarrow d =>
      exists lw lo hi el, get_definition c d = Some (Sequence lw lo hi el) /\ ~ is_array lw lo hi /\
                          (lw = 1 \/ lw = 2 \/ lw = 4) /\ 2 ^ (8 * lw) <= hi
  | TagTooWide d =>
      (exists lw lo hi el, get_definition c d = Some (Sequence lw lo hi el) /\ ~ is_array lw lo hi /\ 8 < lw)
      \/ (exists tw vs, get_definition c d = Some (Enum tw vs) /\ 8 < tw)
  | ZSTSequence d =>
      exists lw lo hi el, get_definition c d = Some (Sequence lw lo hi el) /\ ~ is_array lw lo hi /\
                          ZeroSized c el
  end.

Definition blamed (e : verr) : string :=
  match e with
  | ZSTSequence d | TagTooWide d | TagTooNarrow d | TagNotPowerOfTwo d
  | VMissingDefinition d | EmptyLengthRange d => d
  end.

(** * The maximum size over unbounded numbers
    Sum over members, largest variant plus tag, largest count times element size plus
    length prefix; [path] is the list of enclosing declarations.  Errors are met in
    source order.  ([sres] is reused for the result; [SPanic] never occurs.) *)
Fixpoint sum_with (f : string -> sres mserr N) (ds : list string) : sres mserr N :=
  match ds with
  | [] => SOk 0
  | d :: ds' => a <~ f d ;; b <~ sum_with f ds' ;; SOk (a + b)
  end.

Fixpoint max_with (f : string -> sres mserr N) (ds : list string) : sres mserr N :=
  match ds with
  | [] => SOk 0
  | d :: ds' => a <~ f d ;; b <~ max_with f ds' ;; SOk (N.max a b)
  end.

Fixpoint max_unb (fuel : nat) (c : container) (path : list string) (d : string) : sres mserr N :=
  match fuel with
  | O => SFuel
  | S fuel =>
      if on_stack d path then SErr MRecursive else
      match get_definition c d with
      | None => SErr (MMissingDefinition d)
      | Some (Primitive s) => SOk s
      | Some (Sequence lw lo hi el) =>
          if hi =? 0 then SOk lw
          else m <~ max_unb fuel c (d :: path) el ;; SOk (hi * m + lw)
      | Some (Tuple els) => sum_with (max_unb fuel c (d :: path)) els
      | Some (Enum tw vs) => m <~ max_with (max_unb fuel c (d :: path)) (map variant_decl vs) ;; SOk (m + tw)
      | Some (Struct fs) => sum_with (max_unb fuel c (d :: path)) (field_decls fs)
      end
  end.

Definition max_unbounded (c : container) : sres mserr N := max_unb (full_fuel c) c [] (root c).
