(** C09, the link between the yardstick [sizes] (SchemaSpec.v) and actual encodings.

    (a) [sdec_sizes]: whatever the container-driven decoder [sdec] (SchemaDec.v) accepts, it
        consumes a PREFIX of its input whose length is one of the [sizes] of the declaration:
        the byte counts [sizes] speaks about are exactly those of byte strings the schema
        describes (as far as the schema alone can be used to read them).  Any container, any
        declaration, any fuel, any input: no hypothesis.
    (b) [max_size_bounds_enc]: for a Rust type [t] (with the hypotheses of C08_decodes_partial),
        every encoding [enc t v] of a value of the type is at most the reported
        [max_size (schema_of t)] long: (a) + C08 ([schema_decodes]: [sdec] reads [enc t v]
        completely) + C09_sound ([c09_sound_any]). *)
From Coq Require Import String List NArith ZArith Bool Lia.
From Borsh Require Import Bytes BytesFacts Result Loop LoopFacts Ty Ser C04Facts
     Schema SchemaFns SchemaSpec SchemaProofsMaxDirect SchemaOf SchemaDec SchemaOfCover SchemaOfDecode.
Import ListNotations.
Local Open Scope N_scope.

(** * Pieces *)
Lemma stake_inv n bs a r : stake n bs = Ok (a, r) -> bs = a ++ r /\ len a = n.
Proof.
  unfold stake. destruct (take n bs) as [[a0 r0]|] eqn:E; [|discriminate].
  intros H. inversion H; subst. now apply take_Some.
Qed.

Lemma sumN_cons x l : sumN (x :: l) = x + sumN l.
Proof. reflexivity. Qed.

Lemma find_variant_In vs tag v : find_variant vs tag = Some v -> In v vs.
Proof.
  induction vs as [|x r IH]; cbn [find_variant]; [discriminate|].
  destruct (Z.eqb (fst (fst x)) tag).
  - intros H. inversion H; subst. now left.
  - intros H. right. now apply IH.
Qed.

Section Sizes.
  Variable c : container.

  (** what a parser of declaration [d] is asked to guarantee *)
  Definition sized (d : string) (p : sparser) : Prop :=
    forall bs v rest, p bs = Ok (v, rest) -> exists pre, bs = pre ++ rest /\ sizes c d (len pre).

  Lemma sall_sized (rec : string -> sparser) :
    (forall d, sized d (rec d)) ->
    forall ds bs l rest, sall rec ds bs = Ok (l, rest) ->
      exists pre ns, bs = pre ++ rest /\ Forall2 (sizes c) ds ns /\ len pre = sumN ns.
  Proof.
    intros Hrec. induction ds as [|d dr IH]; intros bs l rest H; cbn [sall] in H.
    - inversion H; subst. exists [], []. repeat split; constructor.
    - apply bind_ok in H. destruct H as ([v s1] & E1 & H).
      apply bind_ok in H. destruct H as ([r s2] & E2 & H). inversion H; subst.
      destruct (Hrec d bs v s1 E1) as (p1 & -> & Hs1).
      destruct (IH s1 r rest E2) as (p2 & ns & -> & HF & Hl).
      exists (p1 ++ p2), (len p1 :: ns). split; [now rewrite app_assoc|]. split; [now constructor|].
      rewrite len_app, sumN_cons, Hl. reflexivity.
  Qed.

  Lemma srepeat_sized el (f : sparser) :
    sized el f ->
    forall n bs l rest, srepeat f n bs = Ok (l, rest) ->
      exists pre ns, bs = pre ++ rest /\ Forall (sizes c el) ns /\ N.of_nat (length ns) = n /\ len pre = sumN ns.
  Proof.
    intros Hf n bs l rest H. unfold srepeat in H.
    apply bind_ok in H. destruct H as ([acc s'] & E & H). inversion H; subst. clear H.
    pose (Inv := fun (i : N) (st : list sval * bytes) =>
                   exists pre ns, bs = pre ++ snd st /\ Forall (sizes c el) ns /\
                                  N.of_nat (length ns) = i /\ len pre = sumN ns).
    assert (HI : Inv (0 + n) (acc, rest)).
    { apply (fun Hs H0 => iterN_ok_inv _ Inv n 0 ([], bs) (acc, rest) Hs H0 E).
      - intros i [a0 s0] [a1 s1] _ _ (pre & ns & Eb & HF & Hn & Hl) Hstep.
        apply bind_ok in Hstep. destruct Hstep as ([v s2] & Ef & Hstep). injection Hstep as <- <-.
        cbn [snd] in Eb. destruct (Hf s0 v s2 Ef) as (p & -> & Hp).
        exists (pre ++ p), (len p :: ns). cbn [snd]. split; [now rewrite <- app_assoc|].
        split; [now constructor|]. split; [cbn [length]; lia|]. rewrite len_app, sumN_cons. lia.
      - exists [], []. repeat split; constructor. }
    destruct HI as (pre & ns & Eb & HF & Hn & Hl). cbn [snd] in Eb. rewrite N.add_0_l in Hn.
    exists pre, ns. auto.
  Qed.

  (** * The decoder consumes a prefix whose length is one of the declaration's sizes *)
  Theorem sdec_r_sizes : forall fuel d, sized d (sdec_r c fuel d).
  Proof.
    induction fuel as [|fuel IH]; intros d bs v rest H; cbn [sdec_r] in H; [discriminate|].
    destruct (get_definition c d) as [[s|lw lo hi el|els|tw vs|[fs|fs|]]|] eqn:L; try discriminate.
    - (* Primitive *)
      apply bind_ok in H. destruct H as ([a r] & E & H). inversion H; subst.
      destruct (stake_inv _ _ _ _ E) as [-> Hl]. exists a. split; [reflexivity|]. rewrite Hl.
      now apply Sz_prim.
    - (* Sequence *)
      apply bind_ok in H. destruct H as ([n s1] & E1 & H).
      apply bind_ok in H. destruct H as ([l s2] & E2 & H). inversion H; subst.
      destruct (srepeat_sized el _ (IH el) _ _ _ _ E2) as (p2 & ns & Es & HF & Hn & Hl).
      destruct (N.eqb_spec lw 0) as [Hlw|Hlw].
      + destruct (N.eqb_spec lo hi) as [Hlh|Hlh]; [|discriminate]. injection E1 as E1a E1b.
        exists p2. split; [congruence|]. rewrite Hl.
        replace (sumN ns) with (lw + sumN ns) by (rewrite Hlw; reflexivity).
        eapply Sz_seq; [exact L| | |exact HF]; rewrite Hn; lia.
      + apply bind_ok in E1. destruct E1 as ([a r] & Ea & E1).
        destruct (stake_inv _ _ _ _ Ea) as [Eb Hla].
        destruct ((lo <=? unle a) && (unle a <=? hi)) eqn:Hr; [|discriminate]. injection E1 as En Er.
        apply andb_true_iff in Hr. destruct Hr as [Hr1 Hr2]. apply N.leb_le in Hr1, Hr2.
        exists (a ++ p2). split; [rewrite <- app_assoc; congruence|]. rewrite len_app, Hl, Hla.
        eapply Sz_seq; [exact L| | |exact HF]; rewrite Hn; lia.
    - (* Tuple *)
      apply bind_ok in H. destruct H as ([l s] & E & H). inversion H; subst.
      destruct (sall_sized _ IH _ _ _ _ E) as (pre & ns & -> & HF & Hl).
      exists pre. split; [reflexivity|]. rewrite Hl. now apply (Sz_tuple c d els).
    - (* Enum *)
      destruct (tw =? 0); [discriminate|].
      apply bind_ok in H. destruct H as ([a s1] & Ea & H).
      destruct (stake_inv _ _ _ _ Ea) as [-> Hla].
      destruct (find_variant vs (z_of_n (unle a))) as [[[dv vn] vd]|] eqn:Ef; [|discriminate].
      apply bind_ok in H. destruct H as ([p s2] & Ep & H). inversion H; subst.
      destruct (IH vd _ _ _ Ep) as (p2 & -> & Hs).
      exists (a ++ p2). split; [now rewrite app_assoc|]. rewrite len_app.
      apply (Sz_enum c d (len a) vs (dv, vn, vd)); [exact L|exact (find_variant_In _ _ _ Ef)|exact Hs].
    - (* Struct, named *)
      apply bind_ok in H. destruct H as ([l s] & E & H). inversion H; subst.
      destruct (sall_sized _ IH _ _ _ _ E) as (pre & ns & -> & HF & Hl).
      exists pre. split; [reflexivity|]. rewrite Hl. now apply (Sz_struct c d (NamedFields fs)).
    - (* Struct, unnamed *)
      apply bind_ok in H. destruct H as ([l s] & E & H). inversion H; subst.
      destruct (sall_sized _ IH _ _ _ _ E) as (pre & ns & -> & HF & Hl).
      exists pre. split; [reflexivity|]. rewrite Hl. now apply (Sz_struct c d (UnnamedFields fs)).
    - (* Struct, empty *)
      inversion H; subst. exists []. split; [reflexivity|].
      apply (Sz_struct c d EmptyFields [] L). constructor.
  Qed.
End Sizes.

(** (a), in the prefix form ... *)
Theorem sdec_prefix_sizes c d fuel bs sv rest :
  sdec c d fuel bs = Some (sv, rest) -> exists pre, bs = pre ++ rest /\ sizes c d (len pre).
Proof.
  unfold sdec. destruct (sdec_r c fuel d bs) as [[v r]|k m|w] eqn:E; try discriminate.
  intros H. inversion H; subst. exact (sdec_r_sizes c fuel d bs sv rest E).
Qed.
Print Assumptions sdec_prefix_sizes.

(** ... and as a count of consumed bytes: what is left is no longer than what was given, and
    the difference is one of the sizes of the declaration *)
Theorem sdec_sizes c d fuel bs sv rest :
  sdec c d fuel bs = Some (sv, rest) -> len rest <= len bs /\ sizes c d (len bs - len rest).
Proof.
  intros H. destruct (sdec_prefix_sizes c d fuel bs sv rest H) as (pre & -> & Hs).
  rewrite len_app. split; [lia|]. now replace (len pre + len rest - len rest) with (len pre) by lia.
Qed.
Print Assumptions sdec_sizes.

(** * (b) Rust types: the reported maximum bounds every encoding *)
Lemma schema_of_root t c : schema_of t = Ok c -> root c = decl_of t.
Proof.
  unfold schema_of. intros H. apply bind_ok in H. destruct H as (ds & _ & H). inversion H; subst. reflexivity.
Qed.

(** every encoding has one of the sizes of the root declaration *)
Theorem enc_len_sizes t v c bs :
  wf t = true -> dflt_ok t = true -> has_schema t = true -> coherent t = true ->
  schema_of t = Ok c -> has_ty t v = true -> enc t v = Ok bs ->
  sizes c (root c) (len bs).
Proof.
  intros Hwf Hd Hs Hco Hsc Hty Henc.
  destruct (schema_decodes t v c bs Hwf Hd Hs Hco Hsc Hty Henc) as (fuel & Hdec).
  destruct (sdec_prefix_sizes _ _ _ _ _ _ Hdec) as (pre & E & Hsz).
  rewrite app_nil_r in E. subst pre. now rewrite (schema_of_root t c Hsc).
Qed.
Print Assumptions enc_len_sizes.

Theorem max_size_bounds_enc t v c m bs :
  wf t = true -> dflt_ok t = true -> has_schema t = true -> coherent t = true ->
  schema_of t = Ok c -> max_size c = SOk m -> has_ty t v = true -> enc t v = Ok bs ->
  len bs <= m.
Proof.
  intros Hwf Hd Hs Hco Hsc Hm Hty Henc.
  exact (c09_sound_any 64 c m Hm (len bs) (enc_len_sizes t v c bs Hwf Hd Hs Hco Hsc Hty Henc)).
Qed.
Print Assumptions max_size_bounds_enc.
