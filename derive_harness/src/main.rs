//! Positive program correspondence for C06: generated items with the real derives
//! (built from /repo's working tree), one case per input line, same line format and
//! canonical printers as the main harness (whose sources are shared by path).
//! Line format (TAB separated):  id  op  tid  TYPE  arg...
#![allow(dead_code)]
#[path = "../../harness/src/errs.rs"]
mod errs;
#[path = "../../harness/src/model.rs"]
mod model;
#[path = "../../harness/src/ops.rs"]
mod ops;
#[path = "../../harness/src/val.rs"]
mod val;

mod items;
mod withfns;

use borsh::{BorshDeserialize, BorshSerialize};
use errs::err_s;
use model::Model;
use std::collections::HashMap;
use std::io::{BufRead, Write};
use val::{hex, parse_val, show, unhex};

/// What the generated items add to `Model`: observation points of the derived code.
pub trait ItemExt: Sized {
    /// number of calls of the item's own `init` hook since the last reset (None: no hook)
    fn init_calls() -> Option<u32> {
        None
    }
    fn reset_init() {}
    /// What the skipped fields of a freshly DECODED object hold, against what they must hold: one text per
    /// field that differs.  Must hold: `Default::default()`; for the two fields the generated init hook
    /// rewrites (`init_calls`, `init_sum`) exactly what ONE call of the hook on this object leaves there.
    fn skipped_check(&self) -> Vec<String> {
        Vec::new()
    }
    /// `BorshSchemaContainer::for_type::<Self>()` built and validated (only where BorshSchema is derived too)
    fn schema_ok() -> Option<String> {
        None
    }
    /// the discriminant as rustc computes it (enums only, where it can be read)
    fn discr(&self) -> Option<i128> {
        None
    }
    /// `EnumExt::deserialize_variant`
    fn de_variant(_tag: u8, _r: &mut &[u8]) -> Option<borsh::io::Result<Self>> {
        None
    }
}

pub struct ItemEntry {
    pub id: u32,
    pub name: &'static str,
    pub describe: fn() -> String,
    pub run: fn(&str, &[&str]) -> String,
}

pub fn entry<T: Model + ItemExt + BorshSerialize + BorshDeserialize>(id: u32, name: &'static str) -> ItemEntry {
    ItemEntry { id, name, describe: T::describe, run: run_item::<T> }
}

fn res_val<T: Model>(r: borsh::io::Result<T>, rest: &[u8]) -> String {
    match r {
        Ok(x) => format!("ok {} {}", show(&x.to_val()), hex(rest)),
        Err(e) => err_s(&e),
    }
}

/// `init=<calls of the hook since the reset>` TAB `skipped=ok | - | BAD: ...` for one decode result
fn observe<T: Model + ItemExt>(r: &borsh::io::Result<T>) -> String {
    let n = match T::init_calls() {
        Some(n) => n.to_string(),
        None => "-".to_string(),
    };
    let sk = match r {
        Ok(x) => {
            let bad = x.skipped_check();
            if bad.is_empty() {
                "ok".to_string()
            } else {
                format!("BAD: {}", bad.join("; "))
            }
        }
        Err(_) => "-".to_string(),
    };
    format!("init={}\tskipped={}", n, sk)
}

fn ok_class<T>(r: &borsh::io::Result<T>) -> &'static str {
    if r.is_ok() {
        "ok"
    } else {
        "err"
    }
}

fn run_item<T: Model + ItemExt + BorshSerialize + BorshDeserialize>(op: &str, args: &[&str]) -> String {
    match (op, args) {
        // decode, and report how often the item's init hook ran and what the skipped fields hold
        ("decinit", [h]) => {
            let b = match unhex(h) {
                Ok(b) => b,
                Err(e) => return format!("harness-error {}", e),
            };
            T::reset_init();
            let mut s: &[u8] = &b;
            let r = T::deserialize(&mut s);
            let o = observe(&r);
            format!("{}\t{}", res_val(r, s), o)
        }
        // EnumExt::deserialize_variant(rest, tag) against deserialize(tag :: rest): value, rest, hook calls, skipped fields
        ("devar", [h]) => {
            let b = match unhex(h) {
                Ok(b) => b,
                Err(e) => return format!("harness-error {}", e),
            };
            if b.is_empty() {
                return "skip empty".into();
            }
            let mut s1: &[u8] = &b[1..];
            T::reset_init();
            let r1 = match T::de_variant(b[0], &mut s1) {
                Some(r) => {
                    let o = observe(&r);
                    format!("{}\t{}", res_val(r, s1), o)
                }
                None => return "skip not-an-enum".into(),
            };
            let mut s2: &[u8] = &b;
            T::reset_init();
            let r = T::deserialize(&mut s2);
            let o = observe(&r);
            format!("{}\t{}\t{}", r1, res_val(r, s2), o)
        }
        // every public decoding entry point: same verdict, hook once per decoded object, skipped fields as required
        ("entries", [h]) => {
            let b = match unhex(h) {
                Ok(b) => b,
                Err(e) => return format!("harness-error {}", e),
            };
            T::reset_init();
            let mut s0: &[u8] = &b;
            let r0 = T::deserialize(&mut s0);
            let whole = s0.is_empty();
            let o0 = observe(&r0);
            let v0 = r0.as_ref().ok().map(|x| show(&x.to_val()));
            let has_hook = T::init_calls().is_some();
            let mut bad: Vec<String> = Vec::new();
            for mode in ["try_from_slice", "from_slice", "deserialize_reader", "try_from_reader", "from_reader"] {
                T::reset_init();
                let mut rd = ops::CountingReader { data: &b, pos: 0 };
                let r = match mode {
                    "try_from_slice" => T::try_from_slice(&b),
                    "from_slice" => borsh::from_slice::<T>(&b),
                    "deserialize_reader" => T::deserialize_reader(&mut rd),
                    "try_from_reader" => T::try_from_reader(&mut rd),
                    _ => borsh::from_reader::<_, T>(&mut rd),
                };
                let o = observe(&r);
                let n = T::init_calls().unwrap_or(0);
                if mode == "deserialize_reader" || whole || v0.is_none() {
                    // same outcome as `deserialize` on the same bytes
                    let v = r.as_ref().ok().map(|x| show(&x.to_val()));
                    if v != v0 || o != o0 {
                        bad.push(format!("{}: {} {:?} {} against deserialize: {} {:?} {}", mode, ok_class(&r), v, o, ok_class(&r0), v0, o0));
                    }
                } else {
                    // a value was decoded and bytes are left over: the whole-input entry points refuse, after ONE hook call
                    if r.is_ok() || (has_hook && n != 1) {
                        bad.push(format!("{}: {} init={} on input with left-over bytes (deserialize: {})", mode, ok_class(&r), n, o0));
                    }
                }
            }
            if bad.is_empty() {
                "ok".to_string()
            } else {
                bad.join(" | ")
            }
        }
        // round trip of a value whose skipped fields hold NON-default contents: the decoded object has Default there
        // (the hook fields: what one hook call writes), the hook ran once
        ("rt", [v, tail]) => {
            let v = match parse_val(v) {
                Ok(v) => v,
                Err(e) => return format!("harness-error {}", e),
            };
            let tail = match unhex(tail) {
                Ok(t) => t,
                Err(e) => return format!("harness-error {}", e),
            };
            let x = match T::from_val(&v) {
                Some(x) => x,
                None => return "skip from_val".into(),
            };
            let mut b = match borsh::to_vec(&x) {
                Ok(b) => b,
                Err(_) => return "skip encerr".into(),
            };
            b.extend_from_slice(&tail);
            let mut s: &[u8] = &b;
            T::reset_init();
            let r = T::deserialize(&mut s);
            let o = observe(&r);
            match r {
                Ok(y) => {
                    let want = if T::init_calls().is_some() { "init=1\tskipped=ok" } else { "init=-\tskipped=ok" };
                    if y.to_val() != x.to_val() || s != &tail[..] {
                        format!("diff {} {}", show(&y.to_val()), hex(s))
                    } else if o != want {
                        format!("diff-hook {}", o.replace('\t', " "))
                    } else {
                        "ok same".to_string()
                    }
                }
                Err(e) => format!("dec{}", err_s(&e)),
            }
        }
        ("schema", _) => match T::schema_ok() {
            Some(s) => s,
            None => "skip no-schema-derive".into(),
        },
        // first byte of the encoding against the discriminant rustc assigned
        ("tagdiscr", [v]) => {
            let v = match parse_val(v) {
                Ok(v) => v,
                Err(e) => return format!("harness-error {}", e),
            };
            let x = match T::from_val(&v) {
                Some(x) => x,
                None => return "skip from_val".into(),
            };
            let d = match x.discr() {
                Some(d) => d.to_string(),
                None => return "skip no-discr".into(),
            };
            match borsh::to_vec(&x) {
                Ok(b) if !b.is_empty() => format!("tag={} discr={}", b[0], d),
                Ok(_) => "bad empty-encoding".into(),
                Err(e) => format!("enc{}", err_s(&e)),
            }
        }
        _ => ops::run_full::<T>(op, args),
    }
}

fn main() {
    std::panic::set_hook(Box::new(|_| {}));
    let table: HashMap<u32, ItemEntry> = items::catalogue().into_iter().map(|e| (e.id, e)).collect();
    let args: Vec<String> = std::env::args().collect();
    let out = std::io::stdout();
    let mut out = std::io::BufWriter::new(out.lock());
    if args.len() > 1 && args[1] == "describe" {
        let mut ids: Vec<&u32> = table.keys().collect();
        ids.sort();
        for id in ids {
            let e = &table[id];
            writeln!(out, "{}\t{}\t{}", id, e.name, (e.describe)()).unwrap();
        }
        return;
    }
    let stdin = std::io::stdin();
    for line in stdin.lock().lines() {
        let line = match line {
            Ok(l) => l,
            Err(_) => break,
        };
        if line.is_empty() {
            continue;
        }
        let f: Vec<&str> = line.split('\t').collect();
        if f.len() < 4 {
            writeln!(out, "?\tharness-error bad-line").unwrap();
            continue;
        }
        let (id, op, tid) = (f[0], f[1], f[2]);
        let res = match tid.parse::<u32>().ok().and_then(|t| table.get(&t)) {
            None => "harness-error unknown-type".to_string(),
            Some(e) => {
                let run = e.run;
                let a: Vec<String> = f[4..].iter().map(|s| s.to_string()).collect();
                let opn = op.to_string();
                match std::panic::catch_unwind(move || {
                    let a: Vec<&str> = a.iter().map(|s| s.as_str()).collect();
                    run(&opn, &a)
                }) {
                    Ok(s) => s,
                    Err(_) => "panic".to_string(),
                }
            }
        };
        writeln!(out, "{}\t{}", id, res).unwrap();
    }
}
