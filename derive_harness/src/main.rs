//! Positive program correspondence for C06: generated items with the real derives
//! (built from /repo's working tree), one case per input line, same line format and
//! canonical printers as the main harness (whose sources are shared by path).
//! Line format (TAB separated):  id  op  tid  TYPE  arg...
#![allow(dead_code)]
#[path = "../../harness/src/errs.rs"]
mod errs;
#[path = "../../harness/src/model.rs"]
mod model;
#[path = "../../harness/src/ops.rs"]
mod ops;
#[path = "../../harness/src/val.rs"]
mod val;

mod items;
mod withfns;

use borsh::{BorshDeserialize, BorshSerialize};
use errs::err_s;
use model::Model;
use std::collections::HashMap;
use std::io::{BufRead, Write};
use val::{hex, parse_val, show, unhex};

/// What the generated items add to `Model`: observation points of the derived code.
pub trait ItemExt: Sized {
    /// number of calls of the item's own `init` hook since the last reset (None: no hook)
    fn init_calls() -> Option<u32> {
        None
    }
    fn reset_init() {}
    /// the discriminant as rustc computes it (enums only, where it can be read)
    fn discr(&self) -> Option<i128> {
        None
    }
    /// `EnumExt::deserialize_variant`
    fn de_variant(_tag: u8, _r: &mut &[u8]) -> Option<borsh::io::Result<Self>> {
        None
    }
}

pub struct ItemEntry {
    pub id: u32,
    pub name: &'static str,
    pub describe: fn() -> String,
    pub run: fn(&str, &[&str]) -> String,
}

pub fn entry<T: Model + ItemExt + BorshSerialize + BorshDeserialize>(id: u32, name: &'static str) -> ItemEntry {
    ItemEntry { id, name, describe: T::describe, run: run_item::<T> }
}

fn res_val<T: Model>(r: borsh::io::Result<T>, rest: &[u8]) -> String {
    match r {
        Ok(x) => format!("ok {} {}", show(&x.to_val()), hex(rest)),
        Err(e) => err_s(&e),
    }
}

fn run_item<T: Model + ItemExt + BorshSerialize + BorshDeserialize>(op: &str, args: &[&str]) -> String {
    match (op, args) {
        // decode, and report how often the item's init hook ran
        ("decinit", [h]) => {
            let b = match unhex(h) {
                Ok(b) => b,
                Err(e) => return format!("harness-error {}", e),
            };
            T::reset_init();
            let mut s: &[u8] = &b;
            let r = T::deserialize(&mut s);
            let n = match T::init_calls() {
                Some(n) => n.to_string(),
                None => "-".to_string(),
            };
            format!("{}\tinit={}", res_val(r, s), n)
        }
        // EnumExt::deserialize_variant(rest, tag) against deserialize(tag :: rest)
        ("devar", [h]) => {
            let b = match unhex(h) {
                Ok(b) => b,
                Err(e) => return format!("harness-error {}", e),
            };
            if b.is_empty() {
                return "skip empty".into();
            }
            let mut s1: &[u8] = &b[1..];
            let r1 = match T::de_variant(b[0], &mut s1) {
                Some(r) => res_val(r, s1),
                None => return "skip not-an-enum".into(),
            };
            let mut s2: &[u8] = &b;
            let r2 = res_val(T::deserialize(&mut s2), s2);
            format!("{}\t{}", r1, r2)
        }
        // first byte of the encoding against the discriminant rustc assigned
        ("tagdiscr", [v]) => {
            let v = match parse_val(v) {
                Ok(v) => v,
                Err(e) => return format!("harness-error {}", e),
            };
            let x = match T::from_val(&v) {
                Some(x) => x,
                None => return "skip from_val".into(),
            };
            let d = match x.discr() {
                Some(d) => d.to_string(),
                None => return "skip no-discr".into(),
            };
            match borsh::to_vec(&x) {
                Ok(b) if !b.is_empty() => format!("tag={} discr={}", b[0], d),
                Ok(_) => "bad empty-encoding".into(),
                Err(e) => format!("enc{}", err_s(&e)),
            }
        }
        _ => ops::run_full::<T>(op, args),
    }
}

fn main() {
    std::panic::set_hook(Box::new(|_| {}));
    let table: HashMap<u32, ItemEntry> = items::catalogue().into_iter().map(|e| (e.id, e)).collect();
    let args: Vec<String> = std::env::args().collect();
    let out = std::io::stdout();
    let mut out = std::io::BufWriter::new(out.lock());
    if args.len() > 1 && args[1] == "describe" {
        let mut ids: Vec<&u32> = table.keys().collect();
        ids.sort();
        for id in ids {
            let e = &table[id];
            writeln!(out, "{}\t{}\t{}", id, e.name, (e.describe)()).unwrap();
        }
        return;
    }
    let stdin = std::io::stdin();
    for line in stdin.lock().lines() {
        let line = match line {
            Ok(l) => l,
            Err(_) => break,
        };
        if line.is_empty() {
            continue;
        }
        let f: Vec<&str> = line.split('\t').collect();
        if f.len() < 4 {
            writeln!(out, "?\tharness-error bad-line").unwrap();
            continue;
        }
        let (id, op, tid) = (f[0], f[1], f[2]);
        let res = match tid.parse::<u32>().ok().and_then(|t| table.get(&t)) {
            None => "harness-error unknown-type".to_string(),
            Some(e) => {
                let run = e.run;
                let a: Vec<String> = f[4..].iter().map(|s| s.to_string()).collect();
                let opn = op.to_string();
                match std::panic::catch_unwind(move || {
                    let a: Vec<&str> = a.iter().map(|s| s.as_str()).collect();
                    run(&opn, &a)
                }) {
                    Ok(s) => s,
                    Err(_) => "panic".to_string(),
                }
            }
        };
        writeln!(out, "{}\t{}", id, res).unwrap();
    }
}
