//! Untyped ops (type field "-"): each ext_* module handles the ops it knows and
//! returns None for the rest.
pub fn run(op: &str, args: &[&str]) -> Option<String> {
    if let Some(r) = crate::ext_array::run(op, args) {
        return Some(r);
    }
    if let Some(r) = crate::ext_schema::run(op, args) {
        return Some(r);
    }
    if let Some(r) = crate::ops_schema_ty::run_untyped(op, args) {
        return Some(r);
    }
    if let Some(r) = crate::ops_cost::run(op, args) {
        return Some(r);
    }
    if let Some(r) = crate::ext_spec::run(op, args) {
        return Some(r);
    }
    if let Some(r) = crate::ops_io::run_untyped(op, args) {
        return Some(r);
    }
    if let Some(r) = crate::ops_canon::run_untyped(op, args) {
        return Some(r);
    }
    None
}
