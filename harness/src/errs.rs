//! Canonical form of io errors: "KIND MSGCLASS", the same enum the Coq model uses.
use borsh::io::{Error, ErrorKind};

pub fn kind_s(k: ErrorKind) -> String {
    match k {
        ErrorKind::InvalidData => "InvalidData".into(),
        ErrorKind::UnexpectedEof => "UnexpectedEof".into(),
        ErrorKind::WriteZero => "WriteZero".into(),
        ErrorKind::Interrupted => "Interrupted".into(),
        ErrorKind::OutOfMemory => "OutOfMemory".into(),
        ErrorKind::Other => "Other".into(),
        ErrorKind::PermissionDenied => "User:1".into(),
        ErrorKind::ConnectionReset => "User:2".into(),
        ErrorKind::BrokenPipe => "User:3".into(),
        ErrorKind::TimedOut => "User:4".into(),
        ErrorKind::InvalidInput => "User:5".into(),
        ErrorKind::NotFound => "User:6".into(),
        ErrorKind::ConnectionRefused => "User:7".into(),
        ErrorKind::ConnectionAborted => "User:8".into(),
        ErrorKind::NotConnected => "User:9".into(),
        ErrorKind::AddrInUse => "User:10".into(),
        ErrorKind::AddrNotAvailable => "User:11".into(),
        ErrorKind::AlreadyExists => "User:12".into(),
        ErrorKind::WouldBlock => "User:13".into(),
        other => format!("Unknown:{:?}", other),
    }
}

pub fn user_kind(n: u64) -> ErrorKind {
    match n {
        1 => ErrorKind::PermissionDenied,
        2 => ErrorKind::ConnectionReset,
        3 => ErrorKind::BrokenPipe,
        4 => ErrorKind::TimedOut,
        6 => ErrorKind::NotFound,
        7 => ErrorKind::ConnectionRefused,
        8 => ErrorKind::ConnectionAborted,
        9 => ErrorKind::NotConnected,
        10 => ErrorKind::AddrInUse,
        11 => ErrorKind::AddrNotAvailable,
        12 => ErrorKind::AlreadyExists,
        13 => ErrorKind::WouldBlock,
        14 => ErrorKind::Other,
        15 => ErrorKind::InvalidData,
        16 => ErrorKind::WriteZero,
        _ => ErrorKind::InvalidInput,
    }
}

fn tail_num(s: &str, prefix: &str, suffix: &str) -> Option<String> {
    let r = s.strip_prefix(prefix)?;
    let r = r.strip_suffix(suffix)?;
    if !r.is_empty() && r.bytes().all(|c| c.is_ascii_digit()) {
        Some(r.to_string())
    } else {
        None
    }
}

pub fn msg_s(m: &str) -> String {
    const ZST: &str = "Collections of zero-sized types are not allowed due to deny-of-service concerns on deserialization.";
    match m {
        "Unexpected length of input" => return "UnexpectedLength".into(),
        "Not all bytes read" => return "NotAllBytesRead".into(),
        ZST => return "Zst".into(),
        "For portability reasons we do not allow to serialize NaNs." => return "NaNSer".into(),
        "For portability reasons we do not allow to deserialize NaNs." => return "NaNDe".into(),
        "Expected a non-zero value" => return "ZeroNonZero".into(),
        "keys were not serialized in ascending order" => return "KeyOrder".into(),
        "Borsh schema does not match" => return "SchemaMismatch".into(),
        "failed to fill whole buffer" => return "FillWhole".into(),
        "failed to write whole buffer" => return "WriteWhole".into(),
        "already mutably borrowed" => return "Borrowed".into(),
        "invalid data" | "unexpected end of file" | "write zero" | "out of memory"
        | "operation interrupted" | "other error" | "other os error" | "invalid input parameter"
        | "permission denied" | "connection reset" | "broken pipe" | "timed out" => {
            return "Simple".into()
        }
        _ => {}
    }
    if let Some(n) = tail_num(m, "Invalid bool representation: ", "") {
        return format!("BadBool:{}", n);
    }
    if let Some(n) = tail_num(m, "Invalid Option representation: ", ". The first byte must be 0 or 1") {
        return format!("BadOption:{}", n);
    }
    if let Some(n) = tail_num(m, "Invalid Result representation: ", ". The first byte must be 0 or 1") {
        return format!("BadResult:{}", n);
    }
    if let Some(n) = tail_num(m, "Invalid IpAddr variant: ", "") {
        return format!("BadIpAddr:{}", n);
    }
    if let Some(n) = tail_num(m, "Invalid SocketAddr variant: ", "") {
        return format!("BadSocketAddr:{}", n);
    }
    if let Some(n) = tail_num(m, "Unexpected variant tag: ", "") {
        return format!("BadVariant:{}", n);
    }
    if let Some(n) = tail_num(m, "user:", "") {
        return format!("User:{}", n);
    }
    if m.starts_with("invalid utf-8 sequence") || m.starts_with("incomplete utf-8 byte sequence") {
        return "Utf8".into();
    }
    if (m.starts_with("the byte at index ") && m.ends_with(" is not ASCII")) || m == "not an ASCII character" {
        return "Ascii".into();
    }
    let clean: String = m.chars().map(|c| if c.is_ascii_alphanumeric() { c } else { '_' }).collect();
    format!("Unknown:{}", clean)
}

/// With HARNESS_RAW_MSG set, the message class is followed by `#` and a digest of the raw text: C13 compares
/// the std and no_std builds message for message, not class for class.
fn raw_tag(e: &Error) -> String {
    if std::env::var_os("HARNESS_RAW_MSG").is_none() {
        return String::new();
    }
    let mut h: u32 = 0x811c9dc5;
    for b in e.to_string().bytes() {
        h = (h ^ b as u32).wrapping_mul(0x01000193);
    }
    format!("#{:08x}", h)
}

pub fn err_s(e: &Error) -> String {
    // an error built from a kind alone (`kind.into()`) carries no message of its own: whatever text the io
    // implementation prints for the kind is class "Simple" (std's own "failed to write whole buffer" has no
    // inner error either, so `get_ref()` cannot be used to tell)
    if e.to_string() == Error::from(e.kind()).to_string() {
        return format!("err {} Simple{}", kind_s(e.kind()), raw_tag(e));
    }
    format!("err {} {}{}", kind_s(e.kind()), msg_s(&e.to_string()), raw_tag(e))
}
