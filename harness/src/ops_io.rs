//! io ops: scheduled readers and writers implementing `borsh::io::{Read, Write}` (std's
//! traits in the std configurations, the crate's own shim in the nostd ones), fixed
//! buffers, and op sequences on slices and vectors run against `std::io` and `borsh::io`.
use crate::errs::{err_s, user_kind};
use crate::model::Model;
use crate::val::{hex, parse_val, show, unhex};
use borsh::io::{Error, ErrorKind, Read, Result, Write};
use borsh::{BorshDeserialize, BorshSerialize};
use std::collections::VecDeque;

// ------------------------------------------------------------------ schedules
fn items(s: &str) -> Vec<&str> {
    if s == "-" || s.is_empty() {
        Vec::new()
    } else {
        s.split(',').collect()
    }
}

/// "K:N": kind 1..5 (user kinds), I (Interrupted), E (UnexpectedEof); message "user:N"
fn fail_of(s: &str) -> Option<(ErrorKind, Option<String>)> {
    let (k, n) = s.split_once(':')?;
    let kind = match k {
        "I" => ErrorKind::Interrupted,
        "E" => ErrorKind::UnexpectedEof,
        _ => user_kind(k.parse::<u64>().ok()?),
    };
    // "K:-" : the error is built from the kind alone (`kind.into()`), no message
    Some((kind, if n == "-" { None } else { Some(format!("user:{}", n)) }))
}

fn mk_err(k: ErrorKind, m: &Option<String>) -> Error {
    match m {
        Some(m) => Error::new(k, m.clone()),
        None => k.into(),
    }
}

enum RResp {
    Deliver(usize),
    Interrupt,
    Fail(ErrorKind, Option<String>),
}

fn rsched_of(s: &str) -> Option<VecDeque<RResp>> {
    let mut out = VecDeque::new();
    for it in items(s) {
        let (h, t) = it.split_at(1);
        out.push_back(match h {
            "d" => RResp::Deliver(t.parse::<usize>().ok().filter(|k| *k > 0)?),
            "i" => RResp::Interrupt,
            "f" => {
                let (k, m) = fail_of(t)?;
                RResp::Fail(k, m)
            }
            _ => return None,
        });
    }
    Some(out)
}

/// A reader that answers each `read` call with the next schedule entry; once the
/// schedule is used up it delivers whatever is asked.
pub struct SchedReader {
    data: Vec<u8>,
    pos: usize,
    sched: VecDeque<RResp>,
    pub calls: usize,
}

impl Read for SchedReader {
    fn read(&mut self, buf: &mut [u8]) -> Result<usize> {
        self.calls += 1;
        let left = self.data.len() - self.pos;
        let n = match self.sched.pop_front() {
            None => buf.len().min(left),
            Some(RResp::Deliver(k)) => k.min(buf.len()).min(left),
            Some(RResp::Interrupt) => return Err(ErrorKind::Interrupted.into()),
            Some(RResp::Fail(k, m)) => return Err(mk_err(k, &m)),
        };
        buf[..n].copy_from_slice(&self.data[self.pos..self.pos + n]);
        self.pos += n;
        Ok(n)
    }
}

enum WResp {
    Accept(usize),
    Zero,
    Interrupt,
    Fail(ErrorKind, Option<String>),
}

fn wsched_of(s: &str) -> Option<VecDeque<WResp>> {
    let mut out = VecDeque::new();
    for it in items(s) {
        let (h, t) = it.split_at(1);
        out.push_back(match h {
            "a" => WResp::Accept(t.parse::<usize>().ok().filter(|k| *k > 0)?),
            "z" => WResp::Zero,
            "i" => WResp::Interrupt,
            "f" => {
                let (k, m) = fail_of(t)?;
                WResp::Fail(k, m)
            }
            _ => return None,
        });
    }
    Some(out)
}

pub struct SchedWriter {
    sink: Vec<u8>,
    sched: VecDeque<WResp>,
}

impl Write for SchedWriter {
    fn write(&mut self, buf: &[u8]) -> Result<usize> {
        let n = match self.sched.pop_front() {
            None => buf.len(),
            Some(WResp::Accept(k)) => k.min(buf.len()),
            Some(WResp::Zero) => 0,
            Some(WResp::Interrupt) => return Err(ErrorKind::Interrupted.into()),
            Some(WResp::Fail(k, m)) => return Err(mk_err(k, &m)),
        };
        self.sink.extend_from_slice(&buf[..n]);
        Ok(n)
    }
    fn flush(&mut self) -> Result<()> {
        Ok(())
    }
}

pub struct ChunkWriter {
    sink: Vec<u8>,
    lens: Vec<usize>,
}

impl Write for ChunkWriter {
    fn write(&mut self, buf: &[u8]) -> Result<usize> {
        self.lens.push(buf.len());
        self.sink.extend_from_slice(buf);
        Ok(buf.len())
    }
    fn flush(&mut self) -> Result<()> {
        Ok(())
    }
}

fn unit_res(r: Result<()>) -> String {
    match r {
        Ok(()) => "ok".to_string(),
        Err(e) => err_s(&e),
    }
}

// ------------------------------------------------------------------ typed ops
/// decr ENTRY HEX SCHED -> "ok VAL pulled=N" | "err K M pulled=N"
pub fn io_de_ops<T: Model + BorshDeserialize>(op: &str, args: &[&str]) -> Option<String> {
    match (op, args) {
        ("decr", [entry, h, sch]) => {
            let data = match unhex(h) {
                Ok(b) => b,
                Err(e) => return Some(format!("harness-error {}", e)),
            };
            let sched = match rsched_of(sch) {
                Some(s) => s,
                None => return Some("harness-error schedule".into()),
            };
            let mut r = SchedReader { data, pos: 0, sched, calls: 0 };
            let res = match *entry {
                "deserialize_reader" => T::deserialize_reader(&mut r),
                "try_from_reader" => T::try_from_reader(&mut r),
                "from_reader" => borsh::from_reader::<_, T>(&mut r),
                _ => return None,
            };
            Some(match res {
                Ok(x) => format!("ok {} pulled={}", show(&x.to_val()), r.pos),
                Err(e) => format!("{} pulled={}", err_s(&e), r.pos),
            })
        }
        _ => None,
    }
}

/// encw VALUE WRITER -> "REPR <TAB> ok|err K M  SINKHEX [room=N]";  iolen VALUE -> "REPR <TAB> ok N"
pub fn io_ser_ops<T: Model + BorshSerialize>(op: &str, args: &[&str]) -> Option<String> {
    match (op, args) {
        ("encw", [v, w]) => {
            let v = match parse_val(v) {
                Ok(v) => v,
                Err(e) => return Some(format!("harness-error {}", e)),
            };
            let x = match T::from_val(&v) {
                Some(x) => x,
                None => return Some("skip from_val".into()),
            };
            let repr = show(&x.to_repr());
            let out = if *w == "v" {
                let mut sink: Vec<u8> = Vec::new();
                let r = borsh::to_writer(&mut sink, &x);
                format!("{} {}", unit_res(r), hex(&sink))
            } else if let Some(cap) = w.strip_prefix("b:") {
                let cap: usize = cap.parse().ok()?;
                let mut buf = vec![0u8; cap];
                let (r, room) = {
                    let mut slice: &mut [u8] = &mut buf[..];
                    let r = borsh::to_writer(&mut slice, &x);
                    (r, slice.len())
                };
                format!("{} {} room={}", unit_res(r), hex(&buf[..cap - room]), room)
            } else if *w == "c" {
                // a writer that takes every buffer whole and records its length: the write_all calls
                // the serializer makes (std's and the shim's write_all call write once for such a writer)
                let mut cw = ChunkWriter { sink: Vec::new(), lens: Vec::new() };
                let r = borsh::to_writer(&mut cw, &x);
                let lens: Vec<String> = cw.lens.iter().map(|n| n.to_string()).collect();
                format!("{} {} chunks={}", unit_res(r), hex(&cw.sink), if lens.is_empty() { "-".to_string() } else { lens.join(",") })
            } else if let Some(s) = w.strip_prefix("s:") {
                let sched = match wsched_of(s) {
                    Some(s) => s,
                    None => return Some("harness-error schedule".into()),
                };
                let mut sw = SchedWriter { sink: Vec::new(), sched };
                let r = borsh::to_writer(&mut sw, &x);
                format!("{} {}", unit_res(r), hex(&sw.sink))
            } else {
                return Some("harness-error writer".into());
            };
            Some(format!("{}\t{}", repr, out))
        }
        ("iolen", [v]) => {
            let v = parse_val(v).ok()?;
            let x = match T::from_val(&v) {
                Some(x) => x,
                None => return Some("skip from_val".into()),
            };
            let repr = show(&x.to_repr());
            Some(match borsh::object_length(&x) {
                Ok(n) => format!("{}\tok {}", repr, n),
                Err(e) => format!("{}\t{}", repr, err_s(&e)),
            })
        }
        _ => None,
    }
}

// ------------------------------------------------------------------ op sequences
#[derive(Clone, Copy, PartialEq)]
pub enum Tgt {
    Slice,
    Vec,
}
pub enum Op {
    Read(usize),
    Exact(usize),
    Write(Tgt, Vec<u8>),
    WriteAll(Tgt, Vec<u8>),
    ByRef(Box<Op>),
    // outside the model's op language: compared between std::io and borsh::io only
    Flush(Tgt),
    WriteFmt(Tgt, String),
}

fn op_of(s: &str) -> Option<Op> {
    let (h, t) = s.split_at(1);
    Some(match h {
        "b" => Op::ByRef(Box::new(op_of(t)?)),
        "r" => Op::Read(t.parse().ok()?),
        "f" => Op::Flush(match t {
            "s" => Tgt::Slice,
            "v" => Tgt::Vec,
            _ => return None,
        }),
        "m" => {
            let (tg, hx) = t.split_once(':')?;
            let tg = match tg {
                "s" => Tgt::Slice,
                "v" => Tgt::Vec,
                _ => return None,
            };
            Op::WriteFmt(tg, String::from_utf8(unhex(hx).ok()?).ok()?)
        }
        "x" => Op::Exact(t.parse().ok()?),
        "w" | "a" => {
            let (tg, hx) = t.split_once(':')?;
            let tg = match tg {
                "s" => Tgt::Slice,
                "v" => Tgt::Vec,
                _ => return None,
            };
            let data = unhex(hx).ok()?;
            if h == "w" {
                Op::Write(tg, data)
            } else {
                Op::WriteAll(tg, data)
            }
        }
        _ => return None,
    })
}

/// The same interpreter instantiated for `std::io` and for `borsh::io`.
macro_rules! io_runner {
    ($modname:ident, [$($io:tt)*]) => {
        pub mod $modname {
            use super::{Op, Tgt};
            use crate::errs::msg_s;
            use crate::val::hex;
            use $($io)*::{Error, Read, Write};

            fn es(e: &Error) -> String {
                format!("{:?}:{}", e.kind(), msg_s(&e.to_string()))
            }
            fn do_read<R: Read>(r: &mut R, n: usize) -> String {
                let mut b = vec![0u8; n];
                match r.read(&mut b) {
                    Ok(k) => format!("R:{}", hex(&b[..k])),
                    Err(e) => format!("XE:{}", es(&e)),
                }
            }
            fn do_exact<R: Read>(r: &mut R, n: usize) -> String {
                let mut b = vec![0u8; n];
                match r.read_exact(&mut b) {
                    Ok(()) => format!("X:{}", hex(&b)),
                    Err(e) => format!("XE:{}", es(&e)),
                }
            }
            fn do_write<W: Write>(w: &mut W, d: &[u8]) -> String {
                match w.write(d) {
                    Ok(k) => format!("W:{}", k),
                    Err(e) => format!("AE:{}", es(&e)),
                }
            }
            fn do_write_all<W: Write>(w: &mut W, d: &[u8]) -> String {
                match w.write_all(d) {
                    Ok(()) => "A".to_string(),
                    Err(e) => format!("AE:{}", es(&e)),
                }
            }
            fn do_flush<W: Write>(w: &mut W) -> String {
                match w.flush() {
                    Ok(()) => "F".to_string(),
                    Err(e) => format!("FE:{}", es(&e)),
                }
            }
            fn do_fmt<W: Write>(w: &mut W, t: &str) -> String {
                // two arguments: the formatter calls write_str several times
                match w.write_fmt(format_args!("{}{}", t, t.len())) {
                    Ok(()) => "M".to_string(),
                    Err(e) => format!("ME:{}", es(&e)),
                }
            }
            // by_ref nesting is resolved statically up to depth 2 (deeper nesting is run at depth 2)
            fn leaf<R: Read, S: Write, V: Write>(op: &Op, r: &mut R, s: &mut S, v: &mut V) -> String {
                match op {
                    Op::Read(n) => do_read(r, *n),
                    Op::Exact(n) => do_exact(r, *n),
                    Op::Write(Tgt::Slice, d) => do_write(s, d),
                    Op::Write(Tgt::Vec, d) => do_write(v, d),
                    Op::WriteAll(Tgt::Slice, d) => do_write_all(s, d),
                    Op::WriteAll(Tgt::Vec, d) => do_write_all(v, d),
                    Op::Flush(Tgt::Slice) => do_flush(s),
                    Op::Flush(Tgt::Vec) => do_flush(v),
                    Op::WriteFmt(Tgt::Slice, t) => do_fmt(s, t),
                    Op::WriteFmt(Tgt::Vec, t) => do_fmt(v, t),
                    Op::ByRef(o) => leaf(o, r, s, v),
                }
            }
            fn depth1<R: Read, S: Write, V: Write>(op: &Op, r: &mut R, s: &mut S, v: &mut V) -> String {
                match op {
                    Op::ByRef(o) => {
                        let (mut rr, mut ss, mut vv) = (r.by_ref(), s.by_ref(), v.by_ref());
                        leaf(o, &mut rr, &mut ss, &mut vv)
                    }
                    _ => leaf(op, r, s, v),
                }
            }
            fn depth0<R: Read, S: Write, V: Write>(op: &Op, r: &mut R, s: &mut S, v: &mut V) -> String {
                match op {
                    Op::ByRef(o) => {
                        let (mut rr, mut ss, mut vv) = (r.by_ref(), s.by_ref(), v.by_ref());
                        depth1(o, &mut rr, &mut ss, &mut vv)
                    }
                    _ => leaf(op, r, s, v),
                }
            }
            pub fn run(input: &[u8], cap: usize, ops: &[Op]) -> String {
                let mut rd: &[u8] = input;
                let mut buf = vec![0u8; cap];
                let mut vec: Vec<u8> = Vec::new();
                let mut outs: Vec<String> = Vec::new();
                let room = {
                    let mut fix: &mut [u8] = &mut buf[..];
                    for op in ops {
                        outs.push(depth0(op, &mut rd, &mut fix, &mut vec));
                    }
                    fix.len()
                };
                format!(
                    "{} | fix={} room={} vec={} rd={}",
                    outs.join(";"),
                    hex(&buf[..cap - room]),
                    room,
                    hex(&vec),
                    hex(rd)
                )
            }
        }
    };
}
io_runner!(real_std, [std::io]);
io_runner!(facade, [borsh::io]);

/// Is `borsh::io` the crate's own shim in this build?
pub fn facade_is_shim() -> bool {
    std::any::TypeId::of::<borsh::io::Error>() != std::any::TypeId::of::<std::io::Error>()
}

/// ioseq IMPL INPUTHEX CAP OPS   with IMPL = std (real std::io) | facade (borsh::io of this build)
/// iokind -> which implementation borsh::io is in this build
pub fn run_untyped(op: &str, args: &[&str]) -> Option<String> {
    match (op, args) {
        ("ioseq", [imp, h, cap, ops]) => {
            let input = unhex(h).ok()?;
            let cap: usize = cap.parse().ok()?;
            let mut parsed = Vec::new();
            for it in items(ops) {
                parsed.push(op_of(it)?);
            }
            Some(match *imp {
                "std" => real_std::run(&input, cap, &parsed),
                "facade" => facade::run(&input, cap, &parsed),
                _ => return None,
            })
        }
        ("iokind", _) => Some(if facade_is_shim() { "shim".into() } else { "std".into() }),
        _ => None,
    }
}
