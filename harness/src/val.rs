//! Values, S-expressions and hex: the wire format between generator, harness and model driver.
#[derive(Clone, Debug, PartialEq, Eq)]
pub enum Val {
    N(u128),
    L(Vec<Val>),
    V(u64, Box<Val>),
}

#[derive(Clone, Debug)]
pub enum Sexp {
    A(String),
    L(Vec<Sexp>),
}

pub fn parse_sexp(s: &str) -> Result<Sexp, String> {
    let b = s.as_bytes();
    let mut pos = 0usize;
    fn one(b: &[u8], pos: &mut usize) -> Result<Sexp, String> {
        while *pos < b.len() && b[*pos] == b' ' {
            *pos += 1;
        }
        if *pos >= b.len() {
            return Err("sexp: eof".into());
        }
        if b[*pos] == b'(' {
            *pos += 1;
            let mut items = Vec::new();
            loop {
                while *pos < b.len() && b[*pos] == b' ' {
                    *pos += 1;
                }
                if *pos >= b.len() {
                    return Err("sexp: unclosed".into());
                }
                if b[*pos] == b')' {
                    *pos += 1;
                    break;
                }
                items.push(one(b, pos)?);
            }
            Ok(Sexp::L(items))
        } else {
            let st = *pos;
            while *pos < b.len() && b[*pos] != b' ' && b[*pos] != b'(' && b[*pos] != b')' {
                *pos += 1;
            }
            Ok(Sexp::A(String::from_utf8_lossy(&b[st..*pos]).into_owned()))
        }
    }
    one(b, &mut pos)
}

pub fn unhex(s: &str) -> Result<Vec<u8>, String> {
    if s == "-" {
        return Ok(Vec::new());
    }
    let b = s.as_bytes();
    if b.len() % 2 != 0 {
        return Err("odd hex".into());
    }
    let hv = |c: u8| -> Result<u8, String> {
        match c {
            b'0'..=b'9' => Ok(c - b'0'),
            b'a'..=b'f' => Ok(c - b'a' + 10),
            b'A'..=b'F' => Ok(c - b'A' + 10),
            _ => Err("bad hex".into()),
        }
    };
    let mut out = Vec::with_capacity(b.len() / 2);
    for i in 0..b.len() / 2 {
        out.push(hv(b[2 * i])? * 16 + hv(b[2 * i + 1])?);
    }
    Ok(out)
}

const HEXD: &[u8; 16] = b"0123456789abcdef";
pub fn hex(b: &[u8]) -> String {
    if b.is_empty() {
        return "-".into();
    }
    let mut s = String::with_capacity(b.len() * 2);
    for x in b {
        s.push(HEXD[(x >> 4) as usize] as char);
        s.push(HEXD[(x & 15) as usize] as char);
    }
    s
}

pub fn val_of_sexp(e: &Sexp) -> Result<Val, String> {
    match e {
        Sexp::A(s) => s.parse::<u128>().map(Val::N).map_err(|_| format!("bad number {}", s)),
        Sexp::L(items) => match items.as_slice() {
            [Sexp::A(t)] if t == "b" => Ok(Val::L(vec![])),
            [Sexp::A(t), Sexp::A(h)] if t == "b" => {
                Ok(Val::L(unhex(h)?.into_iter().map(|x| Val::N(x as u128)).collect()))
            }
            [Sexp::A(t), rest @ ..] if t == "l" => {
                let mut v = Vec::with_capacity(rest.len());
                for r in rest {
                    v.push(val_of_sexp(r)?);
                }
                Ok(Val::L(v))
            }
            [Sexp::A(t), Sexp::A(i), x] if t == "v" => Ok(Val::V(
                i.parse::<u64>().map_err(|_| "bad variant index".to_string())?,
                Box::new(val_of_sexp(x)?),
            )),
            _ => Err("value syntax".into()),
        },
    }
}

pub fn parse_val(s: &str) -> Result<Val, String> {
    val_of_sexp(&parse_sexp(s)?)
}

/// Canonical printing: a non-empty list of numbers < 256 prints as (b HEX).
pub fn print_val(v: &Val, out: &mut String) {
    match v {
        Val::N(n) => out.push_str(&n.to_string()),
        Val::V(i, x) => {
            out.push_str("(v ");
            out.push_str(&i.to_string());
            out.push(' ');
            print_val(x, out);
            out.push(')');
        }
        Val::L(l) if l.is_empty() => out.push_str("(l)"),
        Val::L(l) => {
            let small = l.iter().all(|x| matches!(x, Val::N(n) if *n < 256));
            if small {
                out.push_str("(b ");
                for x in l {
                    if let Val::N(n) = x {
                        out.push(HEXD[(*n >> 4) as usize] as char);
                        out.push(HEXD[(*n & 15) as usize] as char);
                    }
                }
                out.push(')');
            } else {
                out.push_str("(l");
                for x in l {
                    out.push(' ');
                    print_val(x, out);
                }
                out.push(')');
            }
        }
    }
}

pub fn show(v: &Val) -> String {
    let mut s = String::new();
    print_val(v, &mut s);
    s
}

pub fn bytes_val(b: &[u8]) -> Val {
    Val::L(b.iter().map(|x| Val::N(*x as u128)).collect())
}
pub fn val_bytes(v: &Val) -> Option<Vec<u8>> {
    match v {
        Val::L(l) => l
            .iter()
            .map(|x| match x {
                Val::N(n) if *n < 256 => Some(*n as u8),
                _ => None,
            })
            .collect(),
        _ => None,
    }
}
