//! C03: many representations of one logical value, serialized by the real implementation.
//!
//! Typed op for every catalogue type (hooked into `ops::run_ser` / `ops::run_full`):
//!   encreps VALUE      the value as built, serialized twice, through `to_writer`, behind
//!                      `&`, `&&`, and rebuilt from scratch (new allocations, new hasher keys
//!                      for every nested hash collection) behind Box / Rc / Arc / RefCell.
//!                      Output: REPR-built \t REPR-rebuilt \t label:RESULT|label:RESULT|...
//!
//! Typed ops of the hand-written history entries (ids >= 100000, see gen/catalogue.py):
//!   histreps SEED ELEMS EXTRA    HashSet<T, S> / HashMap<K, V, S>: insertion orders (forward,
//!                      reverse, shuffled by SEED), capacity histories (with_capacity, reserve,
//!                      shrink_to_fit), removal + reinsertion, foreign elements inserted and
//!                      removed, retain, clone, collect -- each for the default hasher and for
//!                      three seeds of a custom BuildHasher.
//!   dequereps SEED ELEMS EXTRA   VecDeque<T>: push_back / push_front histories, ring-buffer
//!                      offsets (every rotation amount up to the length), rotate_left/right,
//!                      make_contiguous, growth and shrinking, plus the Vec with the same content.
//!   Output: label;REPR;RESULT|label;REPR;RESULT|...
//! REPR is what the implementation actually holds (iteration order, the two deque slices).
use crate::model::Model;
use crate::ops::{res_bytes, Entry};
use crate::val::{parse_val, show, Val};
use borsh::BorshSerialize;
use std::cell::RefCell;
use std::collections::VecDeque;
use std::hash::{BuildHasher, Hash, Hasher};
use std::rc::Rc;
use std::sync::Arc;

#[cfg(feature = "cfg_nostd")]
use hashbrown::{HashMap, HashSet};
#[cfg(feature = "cfg_std")]
use std::collections::{HashMap, HashSet};

#[cfg(feature = "cfg_nostd")]
type DefaultState = hashbrown::DefaultHashBuilder;
#[cfg(feature = "cfg_std")]
type DefaultState = std::collections::hash_map::RandomState;

// ---------------------------------------------------------------- generic op
pub fn ops<T: Model + BorshSerialize>(op: &str, args: &[&str]) -> Option<String> {
    match (op, args) {
        ("encreps", [v]) => {
            let v = match parse_val(v) {
                Ok(v) => v,
                Err(e) => return Some(format!("harness-error {}", e)),
            };
            let x = match T::from_val(&v) {
                Some(x) => x,
                None => return Some("skip from_val".into()),
            };
            let mut out: Vec<(&str, String)> = Vec::new();
            out.push(("direct", res_bytes(borsh::to_vec(&x))));
            out.push(("again", res_bytes(borsh::to_vec(&x))));
            let mut w: Vec<u8> = Vec::new();
            let r = borsh::to_writer(&mut w, &x).map(|_| w);
            out.push(("writer", res_bytes(r)));
            out.push(("ref", res_bytes(borsh::to_vec(&&x))));
            out.push(("refref", res_bytes(borsh::to_vec(&&&x))));
            let y = T::from_val(&v)?;
            let repr2 = show(&y.to_repr());
            out.push(("rebuilt", res_bytes(borsh::to_vec(&y))));
            out.push(("box", res_bytes(borsh::to_vec(&Box::new(y)))));
            out.push(("rc", res_bytes(borsh::to_vec(&Rc::new(T::from_val(&v)?)))));
            out.push(("arc", res_bytes(borsh::to_vec(&Arc::new(T::from_val(&v)?)))));
            out.push(("refcell", res_bytes(borsh::to_vec(&RefCell::new(T::from_val(&v)?)))));
            out.push(("boxref", res_bytes(borsh::to_vec(&Box::new(&x)))));
            out.push(("last", res_bytes(borsh::to_vec(&x))));
            let body: Vec<String> = out.into_iter().map(|(l, r)| format!("{}:{}", l, r)).collect();
            Some(format!("{}\t{}\t{}", show(&x.to_repr()), repr2, body.join("|")))
        }
        _ => None,
    }
}

// ---------------------------------------------------------------- a seeded BuildHasher
#[derive(Clone, Default)]
pub struct Seeded<const N: u64>;
pub struct SeededHasher(u64);
impl<const N: u64> BuildHasher for Seeded<N> {
    type Hasher = SeededHasher;
    fn build_hasher(&self) -> SeededHasher {
        SeededHasher(0xcbf2_9ce4_8422_2325 ^ N.wrapping_mul(0x9e37_79b9_7f4a_7c15))
    }
}
impl Hasher for SeededHasher {
    fn write(&mut self, bytes: &[u8]) {
        for b in bytes {
            self.0 ^= *b as u64;
            self.0 = self.0.wrapping_mul(0x0000_0100_0000_01b3);
        }
    }
    fn finish(&self) -> u64 {
        // final avalanche so that both the high and the low bits depend on everything
        let mut z = self.0;
        z = (z ^ (z >> 30)).wrapping_mul(0xbf58_476d_1ce4_e5b9);
        z = (z ^ (z >> 27)).wrapping_mul(0x94d0_49bb_1331_11eb);
        z ^ (z >> 31)
    }
}

fn shuffled<T: Clone>(l: &[T], seed: u64) -> Vec<T> {
    let mut v: Vec<T> = l.to_vec();
    let mut s = seed.wrapping_mul(0x9e37_79b9_7f4a_7c15) | 1;
    for i in (1..v.len()).rev() {
        s ^= s << 13;
        s ^= s >> 7;
        s ^= s << 17;
        v.swap(i, (s % (i as u64 + 1)) as usize);
    }
    v
}

type Reps = Vec<(String, String, String)>;
fn join(reps: Reps) -> String {
    let body: Vec<String> = reps.into_iter().map(|(l, r, b)| format!("{};{};{}", l, r, b)).collect();
    body.join("|")
}
fn push<X: Model + BorshSerialize>(out: &mut Reps, label: String, x: &X) {
    out.push((label, show(&x.to_repr()), res_bytes(borsh::to_vec(x))));
}

// ---------------------------------------------------------------- hash sets
fn set_reps<T, S>(tag: &str, l: &[T], extra: &[T], seed: u64, out: &mut Reps)
where
    T: Model + BorshSerialize + Ord + Hash + Clone,
    S: BuildHasher + Default + Clone + 'static,
{
    let fill = |s: &mut HashSet<T, S>, items: &[T]| {
        for x in items {
            s.insert(x.clone());
        }
    };
    let mut s: HashSet<T, S> = HashSet::default();
    fill(&mut s, l);
    push(out, format!("{}-forward", tag), &s);
    push(out, format!("{}-clone", tag), &s.clone());
    s.reserve(5000);
    push(out, format!("{}-reserve", tag), &s);
    s.shrink_to_fit();
    push(out, format!("{}-reserve-shrink", tag), &s);
    let rev: Vec<T> = l.iter().rev().cloned().collect();
    let mut s: HashSet<T, S> = HashSet::default();
    fill(&mut s, &rev);
    push(out, format!("{}-reverse", tag), &s);
    let mut s: HashSet<T, S> = HashSet::default();
    fill(&mut s, &shuffled(l, seed));
    push(out, format!("{}-shuffled", tag), &s);
    let mut s: HashSet<T, S> = HashSet::with_capacity_and_hasher(777, S::default());
    fill(&mut s, &shuffled(l, seed + 1));
    push(out, format!("{}-with-capacity", tag), &s);
    // removal and reinsertion of every other element
    let mut s: HashSet<T, S> = HashSet::default();
    fill(&mut s, l);
    for x in l.iter().step_by(2) {
        s.remove(x);
    }
    for x in l.iter().step_by(2) {
        s.insert(x.clone());
    }
    push(out, format!("{}-remove-reinsert", tag), &s);
    // foreign elements come and go
    let mut s: HashSet<T, S> = HashSet::default();
    fill(&mut s, extra);
    fill(&mut s, l);
    for x in extra {
        s.remove(x);
    }
    push(out, format!("{}-foreign-removed", tag), &s);
    let mut s: HashSet<T, S> = HashSet::default();
    fill(&mut s, l);
    fill(&mut s, extra);
    s.retain(|x| !extra.contains(x));
    s.shrink_to_fit();
    push(out, format!("{}-retain-shrink", tag), &s);
    let s: HashSet<T, S> = l.iter().cloned().chain(l.iter().cloned()).collect();
    push(out, format!("{}-collect-twice", tag), &s);
    if tag == "default" {
        // the ordered collection with the same content iterates in `Ord` order by construction: "ascending key order"
        // judged on the implementation alone (a hash set sorted by anything else differs from it)
        let b: std::collections::BTreeSet<T> = l.iter().cloned().collect();
        push(out, "default-as-btreeset".to_string(), &b);
    }
}

fn run_hashset<T>(op: &str, args: &[&str]) -> String
where
    T: Model + BorshSerialize + Ord + Hash + Clone,
{
    match (op, args) {
        ("histreps", [seed, v, extra]) => {
            let seed: u64 = seed.parse().unwrap_or(1);
            let l = match parse_val(v).ok().and_then(|v| Vec::<T>::from_val(&v)) {
                Some(l) => l,
                None => return "skip from_val".into(),
            };
            let extra = match parse_val(extra).ok().and_then(|v| Vec::<T>::from_val(&v)) {
                Some(l) => l,
                None => return "skip from_val".into(),
            };
            let mut out = Reps::new();
            set_reps::<T, DefaultState>("default", &l, &extra, seed, &mut out);
            set_reps::<T, Seeded<1>>("seed1", &l, &extra, seed, &mut out);
            set_reps::<T, Seeded<2>>("seed2", &l, &extra, seed, &mut out);
            set_reps::<T, Seeded<3>>("seed3", &l, &extra, seed, &mut out);
            join(out)
        }
        _ => crate::ops::run_ser::<HashSet<T>>(op, args),
    }
}

pub fn hashset_entry<T>(id: u32, rust: &'static str) -> Entry
where
    T: Model + BorshSerialize + Ord + Hash + Clone,
{
    Entry { id, describe: <HashSet<T> as Model>::describe, size_zero: || false, rust, run: run_hashset::<T> }
}

// ---------------------------------------------------------------- hash maps
fn map_reps<K, V, S>(tag: &str, l: &[(K, V)], extra: &[(K, V)], seed: u64, out: &mut Reps)
where
    K: Model + BorshSerialize + Ord + Hash + Clone,
    V: Model + BorshSerialize + Clone,
    S: BuildHasher + Default + Clone + 'static,
{
    let fill = |s: &mut HashMap<K, V, S>, items: &[(K, V)]| {
        for (k, v) in items {
            s.insert(k.clone(), v.clone());
        }
    };
    let mut s: HashMap<K, V, S> = HashMap::default();
    fill(&mut s, l);
    push(out, format!("{}-forward", tag), &s);
    if tag == "default" {
        let b: std::collections::BTreeMap<K, V> = s.iter().map(|(k, v)| (k.clone(), v.clone())).collect();
        push(out, "default-as-btreemap".to_string(), &b);
    }
    push(out, format!("{}-clone", tag), &s.clone());
    s.reserve(5000);
    push(out, format!("{}-reserve", tag), &s);
    s.shrink_to_fit();
    push(out, format!("{}-reserve-shrink", tag), &s);
    let rev: Vec<(K, V)> = l.iter().rev().cloned().collect();
    let mut s: HashMap<K, V, S> = HashMap::default();
    fill(&mut s, &rev);
    push(out, format!("{}-reverse", tag), &s);
    let mut s: HashMap<K, V, S> = HashMap::default();
    fill(&mut s, &shuffled(l, seed));
    push(out, format!("{}-shuffled", tag), &s);
    let mut s: HashMap<K, V, S> = HashMap::with_capacity_and_hasher(777, S::default());
    fill(&mut s, &shuffled(l, seed + 1));
    push(out, format!("{}-with-capacity", tag), &s);
    let mut s: HashMap<K, V, S> = HashMap::default();
    fill(&mut s, l);
    for (k, _) in l.iter().step_by(2) {
        s.remove(k);
    }
    for (k, v) in l.iter().step_by(2) {
        s.insert(k.clone(), v.clone());
    }
    push(out, format!("{}-remove-reinsert", tag), &s);
    let mut s: HashMap<K, V, S> = HashMap::default();
    fill(&mut s, extra);
    fill(&mut s, l);
    for (k, _) in extra {
        s.remove(k);
    }
    push(out, format!("{}-foreign-removed", tag), &s);
    // every key first bound to a value of another entry, then overwritten with its own
    let mut s: HashMap<K, V, S> = HashMap::default();
    if let Some((_, v0)) = l.last() {
        for (k, _) in l {
            s.insert(k.clone(), v0.clone());
        }
    }
    fill(&mut s, l);
    push(out, format!("{}-overwritten", tag), &s);
    let mut s: HashMap<K, V, S> = HashMap::default();
    fill(&mut s, l);
    fill(&mut s, extra);
    s.retain(|k, _| !extra.iter().any(|(e, _)| e == k));
    s.shrink_to_fit();
    push(out, format!("{}-retain-shrink", tag), &s);
}

fn run_hashmap<K, V>(op: &str, args: &[&str]) -> String
where
    K: Model + BorshSerialize + Ord + Hash + Clone,
    V: Model + BorshSerialize + Clone,
{
    match (op, args) {
        ("histreps", [seed, v, extra]) => {
            let seed: u64 = seed.parse().unwrap_or(1);
            let l = match parse_val(v).ok().and_then(|v| Vec::<(K, V)>::from_val(&v)) {
                Some(l) => l,
                None => return "skip from_val".into(),
            };
            let extra = match parse_val(extra).ok().and_then(|v| Vec::<(K, V)>::from_val(&v)) {
                Some(l) => l,
                None => return "skip from_val".into(),
            };
            let mut out = Reps::new();
            map_reps::<K, V, DefaultState>("default", &l, &extra, seed, &mut out);
            map_reps::<K, V, Seeded<1>>("seed1", &l, &extra, seed, &mut out);
            map_reps::<K, V, Seeded<2>>("seed2", &l, &extra, seed, &mut out);
            map_reps::<K, V, Seeded<3>>("seed3", &l, &extra, seed, &mut out);
            join(out)
        }
        _ => crate::ops::run_ser::<HashMap<K, V>>(op, args),
    }
}

pub fn hashmap_entry<K, V>(id: u32, rust: &'static str) -> Entry
where
    K: Model + BorshSerialize + Ord + Hash + Clone,
    V: Model + BorshSerialize + Clone,
{
    Entry { id, describe: <HashMap<K, V> as Model>::describe, size_zero: || false, rust, run: run_hashmap::<K, V> }
}

// ---------------------------------------------------------------- deques
fn run_deque<T>(op: &str, args: &[&str]) -> String
where
    T: Model + BorshSerialize + Clone,
{
    match (op, args) {
        ("dequereps", [seed, v, extra]) => {
            let seed: u64 = seed.parse().unwrap_or(1);
            let l = match parse_val(v).ok().and_then(|v| Vec::<T>::from_val(&v)) {
                Some(l) => l,
                None => return "skip from_val".into(),
            };
            let extra = match parse_val(extra).ok().and_then(|v| Vec::<T>::from_val(&v)) {
                Some(l) => l,
                None => return "skip from_val".into(),
            };
            let n = l.len();
            let mut out = Reps::new();
            // the Vec with the same content: what every deque must encode like
            out.push(("vec".into(), show(&Val::L(vec![Val::L(l.iter().map(|x| x.to_repr()).collect()), Val::L(vec![])])),
                      res_bytes(borsh::to_vec(&l))));
            let mut d: VecDeque<T> = VecDeque::new();
            for x in &l {
                d.push_back(x.clone());
            }
            push(&mut out, "push-back".into(), &d);
            let mut d: VecDeque<T> = VecDeque::new();
            for x in l.iter().rev() {
                d.push_front(x.clone());
            }
            push(&mut out, "push-front".into(), &d);
            push(&mut out, "from-vec".into(), &VecDeque::from(l.clone()));
            let mut d: VecDeque<T> = VecDeque::with_capacity(n + 3);
            for x in &l[n / 2..] {
                d.push_back(x.clone());
            }
            for x in l[..n / 2].iter().rev() {
                d.push_front(x.clone());
            }
            push(&mut out, "front-and-back".into(), &d);
            // ring-buffer offsets: advance the head by r before filling
            if n > 0 {
                let mut offs: Vec<usize> = (1..=n.min(6)).collect();
                offs.push(n / 2 + 1);
                offs.push(((seed as usize) % n) + 1);
                for r in offs {
                    let mut d: VecDeque<T> = VecDeque::with_capacity(n);
                    let cap = d.capacity();
                    for _ in 0..(cap - (r % cap.max(1))) {
                        d.push_back(l[0].clone());
                        d.pop_front();
                    }
                    for x in &l {
                        d.push_back(x.clone());
                    }
                    push(&mut out, format!("offset-{}", r), &d);
                    let mut c = d.clone();
                    c.make_contiguous();
                    push(&mut out, format!("offset-{}-contiguous", r), &c);
                }
                let k = (seed as usize) % n;
                let mut d: VecDeque<T> = VecDeque::from(l.clone());
                d.rotate_left(k);
                d.rotate_right(k);
                push(&mut out, "rotate-there-and-back".into(), &d);
                let mut rot: Vec<T> = l.clone();
                rot.rotate_right(k);
                let mut d: VecDeque<T> = VecDeque::from(rot);
                d.rotate_left(k);
                push(&mut out, "rotated-into-place".into(), &d);
            }
            let mut d: VecDeque<T> = VecDeque::with_capacity(1);
            for x in &l {
                d.push_back(x.clone());
            }
            push(&mut out, "grown".into(), &d);
            let mut d: VecDeque<T> = VecDeque::with_capacity(4096);
            for x in extra.iter() {
                d.push_front(x.clone());
            }
            for x in &l {
                d.push_back(x.clone());
            }
            for x in extra.iter() {
                d.push_back(x.clone());
            }
            for _ in 0..extra.len() {
                d.pop_front();
                d.pop_back();
            }
            push(&mut out, "foreign-popped".into(), &d);
            d.shrink_to_fit();
            push(&mut out, "foreign-popped-shrunk".into(), &d);
            join(out)
        }
        _ => crate::ops::run_ser::<VecDeque<T>>(op, args),
    }
}

pub fn deque_entry<T>(id: u32, rust: &'static str) -> Entry
where
    T: Model + BorshSerialize + Clone,
{
    Entry { id, describe: <VecDeque<T> as Model>::describe, size_zero: || false, rust, run: run_deque::<T> }
}

// ---------------------------------------------------------------- IndexSet / IndexMap: `==` versus bytes
/// indexeq ELEMS(hex bytes)  ->  "set eq=B bytes=B first=HEX second=HEX;map eq=B bytes=B"
/// Two IndexSet<u8> / IndexMap<u8, u16> with the same entries inserted forwards and backwards: indexmap's
/// `PartialEq` ignores the order, the serializer writes the entries in insertion order.
#[cfg(feature = "cfg_std")]
pub fn run_untyped(op: &str, args: &[&str]) -> Option<String> {
    match (op, args) {
        ("indexeq", [h]) => {
            let mut l: Vec<u8> = (0..h.len() / 2).filter_map(|i| u8::from_str_radix(&h[2 * i..2 * i + 2], 16).ok()).collect();
            l.sort();
            l.dedup();
            let a: indexmap::IndexSet<u8> = l.iter().cloned().collect();
            let b: indexmap::IndexSet<u8> = l.iter().rev().cloned().collect();
            let (ba, bb) = (borsh::to_vec(&a).ok()?, borsh::to_vec(&b).ok()?);
            let ma: indexmap::IndexMap<u8, u16> = l.iter().map(|k| (*k, *k as u16 * 3)).collect();
            let mb: indexmap::IndexMap<u8, u16> = l.iter().rev().map(|k| (*k, *k as u16 * 3)).collect();
            let (bma, bmb) = (borsh::to_vec(&ma).ok()?, borsh::to_vec(&mb).ok()?);
            let hx = |b: &[u8]| b.iter().map(|x| format!("{:02x}", x)).collect::<String>();
            Some(format!(
                "set eq={} bytes={} first={} second={};map eq={} bytes={}",
                a == b,
                ba == bb,
                hx(&ba),
                hx(&bb),
                ma == mb,
                bma == bmb
            ))
        }
        // sockv6keys: a BTreeSet / BTreeMap of two SocketAddrV6 that differ only in scope_id (Ord and Eq tell them
        // apart, the format does not carry the scope): serialized, then decoded again
        ("sockv6keys", []) => {
            use std::collections::{BTreeMap, BTreeSet};
            use std::net::{Ipv6Addr, SocketAddrV6};
            let a = SocketAddrV6::new(Ipv6Addr::LOCALHOST, 80, 0, 0);
            let b = SocketAddrV6::new(Ipv6Addr::LOCALHOST, 80, 0, 7);
            let s: BTreeSet<SocketAddrV6> = [a, b].into_iter().collect();
            let bytes = borsh::to_vec(&s).ok()?;
            let ds = match borsh::from_slice::<BTreeSet<SocketAddrV6>>(&bytes) {
                Ok(x) => format!("ok {}", x.len()),
                Err(e) => crate::errs::err_s(&e),
            };
            let m: BTreeMap<SocketAddrV6, u8> = [(a, 1), (b, 2)].into_iter().collect();
            let mb = borsh::to_vec(&m).ok()?;
            let dm = match borsh::from_slice::<BTreeMap<SocketAddrV6, u8>>(&mb) {
                Ok(x) => format!("ok {}", x.len()),
                Err(e) => crate::errs::err_s(&e),
            };
            Some(format!("set n={} de={};map n={} de={}", s.len(), ds, m.len(), dm))
        }
        // rangekeys: an IndexSet / IndexMap of two RangeInclusive<u8> keys that differ only in the `exhausted` flag
        // (Eq and Hash tell them apart, the format does not carry the flag): serialized, then decoded again
        ("rangekeys", []) => {
            let a = 3u8..=3;
            let mut b = 3u8..=3;
            b.next();
            let s: indexmap::IndexSet<core::ops::RangeInclusive<u8>> = [a.clone(), b.clone()].into_iter().collect();
            let bytes = borsh::to_vec(&s).ok()?;
            let ds = match borsh::from_slice::<indexmap::IndexSet<core::ops::RangeInclusive<u8>>>(&bytes) {
                Ok(x) => format!("ok {}", x.len()),
                Err(e) => crate::errs::err_s(&e),
            };
            let m: indexmap::IndexMap<core::ops::RangeInclusive<u8>, u8> = [(a, 1), (b, 2)].into_iter().collect();
            let mb = borsh::to_vec(&m).ok()?;
            let dm = match borsh::from_slice::<indexmap::IndexMap<core::ops::RangeInclusive<u8>, u8>>(&mb) {
                Ok(x) => format!("ok {}", x.len()),
                Err(e) => crate::errs::err_s(&e),
            };
            Some(format!("set n={} de={};map n={} de={}", s.len(), ds, m.len(), dm))
        }
        // nevercolls: collections whose element is an UNINHABITED type or built from one (`enum Never {}`,
        // Option<Never>, Result<(), Never>, [Never; 3]): all occupy no memory, so every collection of them must be refused
        // in both directions (C14's first sentence on element types the model's universe does not have)
        ("nevercolls", []) => {
            use borsh::{BorshDeserialize, BorshSerialize};
            use std::collections::{BTreeMap, LinkedList, VecDeque};
            #[derive(BorshSerialize, BorshDeserialize, Debug, PartialEq, Eq, PartialOrd, Ord, Hash, Clone)]
            enum Never {}
            fn both<C: BorshSerialize + BorshDeserialize>(label: &str, empty: &C, out: &mut Vec<String>) {
                let se = match borsh::to_vec(empty) {
                    Ok(b) => format!("ok {}", b.len()),
                    Err(e) => crate::errs::err_s(&e),
                };
                let de = match borsh::from_slice::<C>(&[0, 0, 0, 0]) {
                    Ok(_) => "ok".to_string(),
                    Err(e) => crate::errs::err_s(&e),
                };
                let de1 = match C::deserialize(&mut &[1u8, 0, 0, 0, 0][..]) {
                    Ok(_) => "ok".to_string(),
                    Err(e) => crate::errs::err_s(&e),
                };
                out.push(format!("{} size={} ser={} de0={} de1={}", label, "0", se, de, de1));
            }
            let mut out = Vec::new();
            assert_eq!(core::mem::size_of::<Never>() + core::mem::size_of::<Option<Never>>() + core::mem::size_of::<Result<(), Never>>() + core::mem::size_of::<[Never; 3]>(), 0);
            both("Vec<Never>", &Vec::<Never>::new(), &mut out);
            both("Vec<Option<Never>>", &Vec::<Option<Never>>::new(), &mut out);
            both("VecDeque<Result<(),Never>>", &VecDeque::<Result<(), Never>>::new(), &mut out);
            both("LinkedList<[Never;3]>", &LinkedList::<[Never; 3]>::new(), &mut out);
            both("BTreeMap<Never,u8>", &BTreeMap::<Never, u8>::new(), &mut out);
            both("HashSet<Option<Never>>", &HashSet::<Option<Never>>::new(), &mut out);
            // the usable neighbours
            let o: Option<Never> = None;
            let on = match borsh::to_vec(&o) { Ok(b) => format!("ok {:?}", b), Err(e) => crate::errs::err_s(&e) };
            let od = match borsh::from_slice::<Option<Never>>(&[0]) { Ok(x) => format!("ok {}", x.is_none()), Err(e) => crate::errs::err_s(&e) };
            let od1 = match borsh::from_slice::<Option<Never>>(&[1]) { Ok(_) => "ok".to_string(), Err(e) => crate::errs::err_s(&e) };
            out.push(format!("Option<Never> ser={} de0={} de1={}", on, od, od1));
            Some(out.join("|"))
        }
        // sockv6dec: what a decoded SocketAddrV6 holds in the two fields the format does not carry (Model::to_val
        // drops them, so the typed ops cannot see them)
        ("sockv6dec", []) => {
            use std::net::{Ipv6Addr, SocketAddrV6};
            let mut out = Vec::new();
            for (ip, port, flow, scope) in [
                (Ipv6Addr::LOCALHOST, 80u16, 0u32, 0u32),
                (Ipv6Addr::new(0x2001, 0xdb8, 0, 0, 0, 0xff00, 0x42, 0x8329), 65535, 7, 9),
                (Ipv6Addr::UNSPECIFIED, 0, u32::MAX, u32::MAX),
            ] {
                let a = SocketAddrV6::new(ip, port, flow, scope);
                let bytes = borsh::to_vec(&a).ok()?;
                out.push(match borsh::from_slice::<SocketAddrV6>(&bytes) {
                    Ok(d) => format!(
                        "len={} ip={} port={} flow={} scope={}",
                        bytes.len(),
                        d.ip() == a.ip(),
                        d.port() == a.port(),
                        d.flowinfo(),
                        d.scope_id()
                    ),
                    Err(e) => crate::errs::err_s(&e),
                });
            }
            Some(out.join(";"))
        }
        _ => None,
    }
}
#[cfg(not(feature = "cfg_std"))]
pub fn run_untyped(_op: &str, _args: &[&str]) -> Option<String> {
    None
}
