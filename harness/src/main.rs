//! Correspondence harness: runs the real borsh implementation (built from /repo's
//! working tree) on one case per input line.
//! Line format (TAB separated):  id  op  tid  TYPE  arg...
mod alloc_count;
mod catalogue;
mod errs;
mod ext;
mod items;
mod items_rec;
mod ext_array;
mod ext_schema;
mod ext_spec;
mod model;
mod ops;
mod ops_cost;
// the crate's own capacity hint, compiled from its source file (it is private to the crate): sizes that no
// value can have in a test process (multiples of 2^32 bytes) are exercised on the function alone
#[allow(dead_code)]
#[path = "/repo/borsh/src/de/hint.rs"]
mod hint_src;
mod ops_io;
mod ops_schema_ty;
mod ops_canon;
mod sizes_gen;
mod val;

#[global_allocator]
static GLOBAL: alloc_count::Counting = alloc_count::Counting;

use std::collections::HashMap;
use std::io::{BufRead, Write};

fn main() {
    std::panic::set_hook(Box::new(|_| {}));
    let table: HashMap<u32, ops::Entry> = catalogue::catalogue().into_iter().map(|e| (e.id, e)).collect();
    let stable: HashMap<u32, ops::RunFn> = catalogue::schema_catalogue().into_iter().collect();
    let args: Vec<String> = std::env::args().collect();
    let out = std::io::stdout();
    let mut out = std::io::BufWriter::new(out.lock());
    if args.len() > 1 && args[1] == "describe" {
        let mut ids: Vec<&u32> = table.keys().collect();
        ids.sort();
        for id in ids {
            if *id >= 100000 {
                continue;
            }
            let e = &table[id];
            writeln!(out, "{}\t{}\t{}\t{}", id, (e.describe)(), if (e.size_zero)() { 1 } else { 0 }, e.rust).unwrap();
        }
        return;
    }
    let stdin = std::io::stdin();
    for line in stdin.lock().lines() {
        let line = match line {
            Ok(l) => l,
            Err(_) => break,
        };
        if line.is_empty() {
            continue;
        }
        let f: Vec<&str> = line.split('\t').collect();
        if f.len() < 4 {
            writeln!(out, "?\tharness-error bad-line").unwrap();
            continue;
        }
        let (id, op, tid) = (f[0], f[1], f[2]);
        if tid == "-" {
            // untyped op: handled by one of the ext_* modules
            let a: Vec<String> = f[4..].iter().map(|s| s.to_string()).collect();
            let opn = op.to_string();
            let res = match std::panic::catch_unwind(move || {
                let a: Vec<&str> = a.iter().map(|s| s.as_str()).collect();
                ext::run(&opn, &a)
            }) {
                Ok(Some(s)) => s,
                Ok(None) => "harness-error unknown-op".to_string(),
                Err(_) => "panic".to_string(),
            };
            writeln!(out, "{}\t{}", id, res).unwrap();
            continue;
        }
        if ops_schema_ty::is_schema_op(op) {
            let res = match tid.parse::<u32>().ok().and_then(|t| stable.get(&t)) {
                None => "skip no-schema".to_string(),
                Some(run) => {
                    let run = *run;
                    let a: Vec<&str> = f[4..].to_vec();
                    match std::panic::catch_unwind(move || run(op, &a)) {
                        Ok(s) => s,
                        Err(_) => "panic".to_string(),
                    }
                }
            };
            writeln!(out, "{}\t{}", id, res).unwrap();
            continue;
        }
        let res = match tid.parse::<u32>().ok().and_then(|t| table.get(&t)) {
            None => "harness-error unknown-type".to_string(),
            Some(e) => {
                let run = e.run;
                let a: Vec<&str> = f[4..].to_vec();
                match std::panic::catch_unwind(move || run(op, &a)) {
                    Ok(s) => s,
                    Err(_) => "panic".to_string(),
                }
            }
        };
        writeln!(out, "{}\t{}", id, res).unwrap();
    }
}
