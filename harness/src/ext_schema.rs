//! Schema container ops (untyped): the real `BorshSchemaContainer::max_serialized_size`
//! and `::validate` on containers given in the S-expression syntax shared with
//! ocaml/ops_schema.ml:
//!   (c ROOT (NAME DEF) (NAME DEF) ...)
//!   NAME = 'x' + lowercase hex of the UTF-8 bytes of the name
//!   DEF  = (p SIZE) | (s LW LO HI ELEM) | (t ELEM...) | (e TW (DISCR VNAME DECL)...)
//!        | (sn (FNAME DECL)...) | (su DECL...) | (se)
//! Duplicate NAME keys: the FIRST occurrence wins (insert only if absent).
//! Results: `ok N` / `ok` / `err Overflow` / `err Recursive` / `err MissingDefinition xHEX` /
//! `err ZSTSequence xHEX` ... / `panic`.
#![allow(dead_code)]
use borsh::schema::{
    BorshSchemaContainer, Definition, Fields, SchemaContainerValidateError as VErr,
    SchemaMaxSerializedSizeError as MErr,
};
use borsh::{BorshSchema, BorshSerialize};
use std::collections::{BTreeMap, BTreeSet, LinkedList, VecDeque};

// ------------------------------------------------------------------ s-expressions
enum Sx {
    A(String),
    L(Vec<Sx>),
}

fn parse(s: &str) -> Result<Sx, String> {
    let b = s.as_bytes();
    let mut pos = 0usize;
    fn one(b: &[u8], pos: &mut usize) -> Result<Sx, String> {
        while *pos < b.len() && b[*pos] == b' ' {
            *pos += 1;
        }
        if *pos >= b.len() {
            return Err("sexp: eof".into());
        }
        if b[*pos] == b'(' {
            *pos += 1;
            let mut items = Vec::new();
            loop {
                while *pos < b.len() && b[*pos] == b' ' {
                    *pos += 1;
                }
                if *pos >= b.len() {
                    return Err("sexp: unclosed".into());
                }
                if b[*pos] == b')' {
                    *pos += 1;
                    return Ok(Sx::L(items));
                }
                items.push(one(b, pos)?);
            }
        }
        let st = *pos;
        while *pos < b.len() && b[*pos] != b' ' && b[*pos] != b'(' && b[*pos] != b')' {
            *pos += 1;
        }
        Ok(Sx::A(String::from_utf8_lossy(&b[st..*pos]).into_owned()))
    }
    one(b, &mut pos)
}

fn hexval(c: u8) -> Result<u8, String> {
    match c {
        b'0'..=b'9' => Ok(c - b'0'),
        b'a'..=b'f' => Ok(c - b'a' + 10),
        _ => Err("bad hex".into()),
    }
}

fn name_of(a: &str) -> Result<String, String> {
    let b = a.as_bytes();
    if b.is_empty() || b[0] != b'x' || (b.len() - 1) % 2 != 0 {
        return Err(format!("bad name {}", a));
    }
    let mut out = Vec::with_capacity(b.len() / 2);
    let mut i = 1;
    while i < b.len() {
        out.push(hexval(b[i])? * 16 + hexval(b[i + 1])?);
        i += 2;
    }
    String::from_utf8(out).map_err(|_| "name is not utf-8".to_string())
}

pub fn hex_of_name(s: &str) -> String {
    let mut o = String::with_capacity(1 + 2 * s.len());
    o.push('x');
    for b in s.as_bytes() {
        o.push_str(&format!("{:02x}", b));
    }
    o
}

fn atom(x: &Sx) -> Result<&str, String> {
    match x {
        Sx::A(s) => Ok(s.as_str()),
        Sx::L(_) => Err("atom expected".into()),
    }
}
fn nm(x: &Sx) -> Result<String, String> {
    name_of(atom(x)?)
}
fn num<T: std::str::FromStr>(x: &Sx) -> Result<T, String> {
    let a = atom(x)?;
    a.parse::<T>().map_err(|_| format!("bad number {}", a))
}

fn def_of(x: &Sx) -> Result<Definition, String> {
    let l = match x {
        Sx::L(l) if !l.is_empty() => l,
        _ => return Err("definition syntax".into()),
    };
    match (atom(&l[0])?, l.len()) {
        ("p", 2) => Ok(Definition::Primitive(num::<u8>(&l[1])?)),
        ("s", 5) => Ok(Definition::Sequence {
            length_width: num::<u8>(&l[1])?,
            length_range: num::<u64>(&l[2])?..=num::<u64>(&l[3])?,
            elements: nm(&l[4])?,
        }),
        ("t", _) => Ok(Definition::Tuple { elements: l[1..].iter().map(nm).collect::<Result<_, _>>()? }),
        ("e", n) if n >= 2 => {
            let mut variants = Vec::new();
            for v in &l[2..] {
                match v {
                    Sx::L(v) if v.len() == 3 => variants.push((num::<i64>(&v[0])?, nm(&v[1])?, nm(&v[2])?)),
                    _ => return Err("variant syntax".into()),
                }
            }
            Ok(Definition::Enum { tag_width: num::<u8>(&l[1])?, variants })
        }
        ("sn", _) => {
            let mut fs = Vec::new();
            for f in &l[1..] {
                match f {
                    Sx::L(f) if f.len() == 2 => fs.push((nm(&f[0])?, nm(&f[1])?)),
                    _ => return Err("field syntax".into()),
                }
            }
            Ok(Definition::Struct { fields: Fields::NamedFields(fs) })
        }
        ("su", _) => Ok(Definition::Struct {
            fields: Fields::UnnamedFields(l[1..].iter().map(nm).collect::<Result<_, _>>()?),
        }),
        ("se", 1) => Ok(Definition::Struct { fields: Fields::Empty }),
        _ => Err("definition syntax".into()),
    }
}

pub(crate) fn container_of(s: &str) -> Result<BorshSchemaContainer, String> {
    let l = match parse(s)? {
        Sx::L(l) if l.len() >= 2 => l,
        _ => return Err("container syntax".into()),
    };
    if atom(&l[0])? != "c" {
        return Err("container syntax".into());
    }
    let root = nm(&l[1])?;
    let mut defs: BTreeMap<String, Definition> = BTreeMap::new();
    for d in &l[2..] {
        match d {
            Sx::L(kv) if kv.len() == 2 => {
                let k = nm(&kv[0])?;
                let v = def_of(&kv[1])?;
                defs.entry(k).or_insert(v); // first occurrence wins
            }
            _ => return Err("declaration syntax".into()),
        }
    }
    Ok(BorshSchemaContainer::new(root, defs))
}

// ------------------------------------------------------------------ printing
fn dump_def(d: &Definition) -> String {
    match d {
        Definition::Primitive(s) => format!("(p {})", s),
        Definition::Sequence { length_width, length_range, elements } => format!(
            "(s {} {} {} {})",
            length_width,
            length_range.start(),
            length_range.end(),
            hex_of_name(elements)
        ),
        Definition::Tuple { elements } => {
            let mut o = String::from("(t");
            for e in elements {
                o.push(' ');
                o.push_str(&hex_of_name(e));
            }
            o.push(')');
            o
        }
        Definition::Enum { tag_width, variants } => {
            let mut o = format!("(e {}", tag_width);
            for (d, n, dc) in variants {
                o.push_str(&format!(" ({} {} {})", d, hex_of_name(n), hex_of_name(dc)));
            }
            o.push(')');
            o
        }
        Definition::Struct { fields } => match fields {
            Fields::NamedFields(fs) => {
                let mut o = String::from("(sn");
                for (n, dc) in fs {
                    o.push_str(&format!(" ({} {})", hex_of_name(n), hex_of_name(dc)));
                }
                o.push(')');
                o
            }
            Fields::UnnamedFields(fs) => {
                let mut o = String::from("(su");
                for dc in fs {
                    o.push(' ');
                    o.push_str(&hex_of_name(dc));
                }
                o.push(')');
                o
            }
            Fields::Empty => "(se)".to_string(),
        },
    }
}

pub fn dump_container(c: &BorshSchemaContainer) -> String {
    let mut o = format!("(c {}", hex_of_name(c.declaration()));
    for (k, d) in c.definitions() {
        o.push_str(&format!(" ({} {})", hex_of_name(k), dump_def(d)));
    }
    o.push(')');
    o
}

pub(crate) fn mserr_s(e: MErr) -> String {
    match e {
        MErr::Overflow => "err Overflow".to_string(),
        MErr::Recursive => "err Recursive".to_string(),
        MErr::MissingDefinition(d) => format!("err MissingDefinition {}", hex_of_name(&d)),
    }
}

pub(crate) fn maxsize_s(c: &BorshSchemaContainer) -> String {
    match std::panic::catch_unwind(std::panic::AssertUnwindSafe(|| c.max_serialized_size())) {
        Err(_) => "panic".to_string(),
        Ok(Ok(n)) => format!("ok {}", n),
        Ok(Err(e)) => mserr_s(e),
    }
}

pub(crate) fn validate_s(c: &BorshSchemaContainer) -> String {
    match std::panic::catch_unwind(std::panic::AssertUnwindSafe(|| c.validate())) {
        Err(_) => "panic".to_string(),
        Ok(Ok(())) => "ok".to_string(),
        Ok(Err(VErr::ZSTSequence(d))) => format!("err ZSTSequence {}", hex_of_name(&d)),
        Ok(Err(VErr::TagTooWide(d))) => format!("err TagTooWide {}", hex_of_name(&d)),
        Ok(Err(VErr::TagTooNarrow(d))) => format!("err TagTooNarrow {}", hex_of_name(&d)),
        Ok(Err(VErr::TagNotPowerOfTwo(d))) => format!("err TagNotPowerOfTwo {}", hex_of_name(&d)),
        Ok(Err(VErr::MissingDefinition(d))) => format!("err MissingDefinition {}", hex_of_name(&d)),
        Ok(Err(VErr::EmptyLengthRange(d))) => format!("err EmptyLengthRange {}", hex_of_name(&d)),
    }
}

// ------------------------------------------------------------------ real Rust types
#[derive(BorshSerialize, BorshSchema)]
struct Rec {
    next: Option<Box<Rec>>,
    v: u8,
}
#[derive(BorshSerialize, BorshSchema)]
struct RecVec(Vec<RecVec>);
#[derive(BorshSerialize, BorshSchema)]
struct Named {
    a: u8,
    b: String,
    c: [u16; 3],
}
#[derive(BorshSerialize, BorshSchema)]
struct Unnamed(u32, Option<u64>, (u8, u8));
#[derive(BorshSerialize, BorshSchema)]
struct UnitS;
#[derive(BorshSerialize, BorshSchema)]
struct Gen<T>(T, Vec<T>);
#[derive(BorshSerialize, BorshSchema)]
enum Mixed {
    A,
    B(u8, u16),
    C { x: u64, y: Vec<u8> },
    D(Named),
}
#[derive(BorshSerialize, BorshSchema)]
enum Unit3 {
    A,
    B,
    C,
}
#[derive(BorshSerialize, BorshSchema)]
enum Tree {
    Leaf(u8),
    Node(Box<Tree>, Box<Tree>),
}
#[derive(BorshSerialize, BorshSchema)]
struct ZstPair([u8; 0], [u8; 0], ());

fn rec_chain(n: usize) -> Rec {
    let mut r = Rec { next: None, v: 1 };
    for i in 0..n {
        r = Rec { next: Some(Box::new(r)), v: i as u8 };
    }
    r
}
fn tree(n: usize) -> Tree {
    if n == 0 {
        Tree::Leaf(3)
    } else {
        Tree::Node(Box::new(tree(n - 1)), Box::new(tree(n - 1)))
    }
}

fn record<T: BorshSchema + ?Sized>(out: &mut Vec<String>, name: &str, len: Option<usize>) {
    let c = BorshSchemaContainer::for_type::<T>();
    out.push(format!(
        "{}|{}|{}",
        name,
        dump_container(&c),
        match len {
            Some(n) => n.to_string(),
            None => "-".to_string(),
        }
    ));
}
fn len_of<T: BorshSerialize + ?Sized>(v: &T) -> Option<usize> {
    borsh::to_vec(v).ok().map(|b| b.len())
}
macro_rules! ty {
    ($out:expr, $t:ty, $v:expr) => {
        record::<$t>($out, stringify!($t), len_of::<$t>(&$v))
    };
    ($out:expr, $t:ty) => {
        record::<$t>($out, stringify!($t), None)
    };
}

fn types() -> String {
    let mut o: Vec<String> = Vec::new();
    let o = &mut o;
    ty!(o, u8, 255u8);
    ty!(o, u64, u64::MAX);
    ty!(o, i128, i128::MIN);
    ty!(o, bool, true);
    ty!(o, f64, 1.5f64);
    ty!(o, usize, usize::MAX);
    ty!(o, core::num::NonZeroU32, core::num::NonZeroU32::new(7).unwrap());
    ty!(o, (), ());
    ty!(o, String, "x".repeat(3000));
    ty!(o, str, *"hello world");
    ty!(o, Vec<u8>, vec![7u8; 5000]);
    ty!(o, Vec<Vec<u8>>, vec![vec![1u8; 100]; 50]);
    ty!(o, [Option<u8>; 10], [Some(1u8); 10]);
    ty!(o, Vec<Option<u8>>, vec![Some(1u8); 300]);
    ty!(o, Vec<([u8; 0], [u8; 0])>, vec![([0u8; 0], [0u8; 0]); 2]);
    ty!(o, Vec<()>, vec![(); 3]);
    ty!(o, Vec<[u8; 0]>, Vec::<[u8; 0]>::new());
    ty!(o, Rec, rec_chain(40));
    ty!(o, RecVec, RecVec(vec![RecVec(vec![]), RecVec(vec![RecVec(vec![])])]));
    ty!(o, Tree, tree(6));
    ty!(o, (u8, u16, String), (1u8, 2u16, "abc".repeat(50)));
    ty!(o, (u8,), (9u8,));
    ty!(o, ((), ()), ((), ()));
    ty!(o, Result<u8, String>, Err::<u8, String>("e".repeat(500)));
    ty!(o, Option<String>, Some("s".repeat(700)));
    ty!(o, Option<Option<u8>>, Some(Some(1u8)));
    ty!(o, BTreeMap<u8, Vec<u16>>, (0u8..200).map(|k| (k, vec![k as u16; 9])).collect::<BTreeMap<_, _>>());
    ty!(o, BTreeSet<u32>, (0u32..1000).collect::<BTreeSet<_>>());
    ty!(o, BTreeMap<String, ()>, [("k".to_string(), ())].into_iter().collect::<BTreeMap<_, _>>());
    #[cfg(feature = "cfg_std")]
    {
        use std::collections::{HashMap, HashSet};
        ty!(o, HashMap<String, u32>, (0u32..100).map(|k| (format!("key{}", k), k)).collect::<HashMap<_, _>>());
        ty!(o, HashSet<u16>, (0u16..500).collect::<HashSet<_>>());
        ty!(o, std::net::IpAddr, std::net::IpAddr::V6(std::net::Ipv6Addr::LOCALHOST));
        ty!(o, std::net::Ipv4Addr, std::net::Ipv4Addr::LOCALHOST);
    }
    ty!(o, VecDeque<u8>, (0u8..250).collect::<VecDeque<_>>());
    ty!(o, LinkedList<u16>, (0u16..250).collect::<LinkedList<_>>());
    ty!(o, [(); 0], [(); 0]);
    ty!(o, [u64; 0], [0u64; 0]);
    ty!(o, [u8; 32], [9u8; 32]);
    ty!(o, [String; 2], ["a".repeat(100), "b".repeat(200)]);
    ty!(o, [[u8; 0]; 5], [[0u8; 0]; 5]);
    ty!(o, [[(); 4294967295]; 4294967295]);
    ty!(o, [[[(); 4294967295]; 4294967295]; 4294967295]);
    ty!(o, [(); 1000], [(); 1000]);
    ty!(o, core::marker::PhantomData<String>, core::marker::PhantomData::<String>);
    ty!(o, Box<[u8]>, vec![1u8; 777].into_boxed_slice());
    ty!(o, std::rc::Rc<str>, std::rc::Rc::<str>::from("rc string"));
    ty!(o, std::sync::Arc<Vec<u32>>, std::sync::Arc::new(vec![5u32; 40]));
    ty!(o, std::borrow::Cow<'static, str>, std::borrow::Cow::Borrowed("cow"));
    ty!(o, core::cell::RefCell<u16>, core::cell::RefCell::new(4u16));
    ty!(o, core::ops::Range<u32>, 1u32..9u32);
    ty!(o, core::ops::RangeFull, ..);
    ty!(o, Named, Named { a: 1, b: "named".repeat(30), c: [1, 2, 3] });
    ty!(o, Unnamed, Unnamed(1, Some(2), (3, 4)));
    ty!(o, UnitS, UnitS);
    ty!(o, Gen<u8>, Gen(1u8, vec![2u8; 60]));
    ty!(o, Gen<Unit3>, Gen(Unit3::A, vec![Unit3::B, Unit3::C]));
    ty!(o, Mixed, Mixed::C { x: 1, y: vec![0u8; 900] });
    ty!(o, Vec<Mixed>, vec![Mixed::A, Mixed::B(1, 2), Mixed::D(Named { a: 1, b: String::new(), c: [0; 3] })]);
    ty!(o, Unit3, Unit3::C);
    ty!(o, ZstPair, ZstPair([], [], ()));
    ty!(o, Vec<ZstPair>, Vec::<ZstPair>::new());
    ty!(o, BorshSchemaContainer, BorshSchemaContainer::for_type::<Vec<Mixed>>());
    o.join(";;")
}

// ------------------------------------------------------------------ entry
pub fn run(op: &str, args: &[&str]) -> Option<String> {
    match op {
        "sch-maxsize" | "sch-validate" | "sch-both" => {
            if args.len() != 1 {
                return Some("harness-error args".to_string());
            }
            let c = match container_of(args[0]) {
                Ok(c) => c,
                Err(e) => return Some(format!("harness-error {}", e)),
            };
            Some(match op {
                "sch-maxsize" => maxsize_s(&c),
                "sch-validate" => validate_s(&c),
                _ => format!("{} | {}", maxsize_s(&c), validate_s(&c)),
            })
        }
        "sch-types" => Some(types()),
        // sch-exhausted: a container whose Sequence carries an EXHAUSTED RangeInclusive (0..=0 after one `next()`):
        // the flag is part of `==` and of `is_empty()`, not of the wire format (finding F26)
        "sch-exhausted" => {
            let mut r = 0..=0u64;
            r.next();
            let mut defs = std::collections::BTreeMap::new();
            defs.insert("A".to_string(), Definition::Sequence { length_width: 0, length_range: r, elements: "u8".to_string() });
            defs.insert("u8".to_string(), Definition::Primitive(1));
            let c = BorshSchemaContainer::new("A".to_string(), defs);
            let bytes = borsh::to_vec(&c).ok()?;
            let back: BorshSchemaContainer = borsh::from_slice(&bytes).ok()?;
            Some(format!("equal={} validate_before={} validate_after={}", back == c, validate_s(&c), validate_s(&back)))
        }
        // sch-capture: two items on which the name of a variant's generated inner struct (`<Enum><Variant>`) captures
        // something else (findings F23, F24): NAME|CONTAINER|BYTES-OF-A-VALUE;;...
        "sch-capture" => {
            use capture::*;
            let l = CapList::Cons(1, Box::new(CapList::Cons(2, Box::new(CapList::Nil))));
            let m = CapMsg::Ack(vec![CapMsgAck { id: 7 }]);
            let hx = |b: Vec<u8>| b.iter().map(|x| format!("{:02x}", x)).collect::<String>();
            Some(format!(
                "self-in-variant|{}|{};;payload-named-like-inner-struct|{}|{}",
                dump_container(&BorshSchemaContainer::for_type::<CapList>()),
                hx(borsh::to_vec(&l).ok()?),
                dump_container(&BorshSchemaContainer::for_type::<CapMsg>()),
                hx(borsh::to_vec(&m).ok()?)
            ))
        }
        // sch-deep WHICH N: a chain of N Tuple definitions t0 -> t1 -> ... -> tN (a Primitive), validated /
        // sized.  The chain is built here (as from_slice would build it from ~29 N bytes) so that the
        // input does not have to travel through stdin.  The traversals recurse once per link.
        "sch-deep" => {
            if args.len() != 2 {
                return Some("harness-error args".to_string());
            }
            let n: usize = args[1].parse().ok()?;
            let mut defs = std::collections::BTreeMap::new();
            for i in 0..n {
                defs.insert(format!("t{:07}", i), Definition::Tuple { elements: vec![format!("t{:07}", i + 1)] });
            }
            defs.insert(format!("t{:07}", n), Definition::Primitive(1));
            let c = BorshSchemaContainer::new("t0000000".to_string(), defs);
            Some(match args[0] {
                "validate" => validate_s(&c),
                _ => maxsize_s(&c),
            })
        }
        _ => None,
    }
}

/// items for `sch-capture`
pub mod capture {
    use borsh::{BorshSchema, BorshSerialize};
    /// `Self` inside a variant: the derive copies the fields into `struct CapListCons(u8, Box<Self>)`
    #[derive(BorshSerialize, BorshSchema)]
    pub enum CapList {
        Nil,
        Cons(u8, Box<Self>),
    }
    /// a payload struct named `<Enum><Variant>`, a common naming convention
    #[derive(BorshSerialize, BorshSchema)]
    pub struct CapMsgAck {
        pub id: u32,
    }
    #[derive(BorshSerialize, BorshSchema)]
    pub enum CapMsg {
        Ack(Vec<CapMsgAck>),
        Nop,
    }
}
