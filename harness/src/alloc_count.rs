//! Counting global allocator (C07): wraps `System` and records, inside a measuring
//! window, the largest single request, the peak of live bytes (relative to the start
//! of the window), the total of all requests and their number.  A `realloc` counts as
//! one request of the new size.  The harness is single-threaded while measuring.
use std::alloc::{GlobalAlloc, Layout, System};
use std::sync::atomic::{AtomicBool, AtomicIsize, AtomicUsize, Ordering::Relaxed};

pub struct Counting;

static ON: AtomicBool = AtomicBool::new(false);
static LIVE: AtomicIsize = AtomicIsize::new(0);
static PEAK: AtomicIsize = AtomicIsize::new(0);
static MAXREQ: AtomicUsize = AtomicUsize::new(0);
static TOTAL: AtomicUsize = AtomicUsize::new(0);
static COUNT: AtomicUsize = AtomicUsize::new(0);
static FIRST: AtomicUsize = AtomicUsize::new(0);

#[inline]
fn request(size: usize, delta: isize) {
    if ON.load(Relaxed) {
        if COUNT.fetch_add(1, Relaxed) == 0 {
            FIRST.store(size, Relaxed);
        }
        TOTAL.fetch_add(size, Relaxed);
        MAXREQ.fetch_max(size, Relaxed);
        let live = LIVE.fetch_add(delta, Relaxed) + delta;
        PEAK.fetch_max(live, Relaxed);
    }
}

unsafe impl GlobalAlloc for Counting {
    unsafe fn alloc(&self, l: Layout) -> *mut u8 {
        request(l.size(), l.size() as isize);
        System.alloc(l)
    }
    unsafe fn alloc_zeroed(&self, l: Layout) -> *mut u8 {
        request(l.size(), l.size() as isize);
        System.alloc_zeroed(l)
    }
    unsafe fn dealloc(&self, p: *mut u8, l: Layout) {
        if ON.load(Relaxed) {
            LIVE.fetch_sub(l.size() as isize, Relaxed);
        }
        System.dealloc(p, l)
    }
    unsafe fn realloc(&self, p: *mut u8, l: Layout, new_size: usize) -> *mut u8 {
        request(new_size, new_size as isize - l.size() as isize);
        System.realloc(p, l, new_size)
    }
}

#[derive(Clone, Copy, Debug, Default)]
pub struct Stats {
    pub max_request: usize,
    pub peak: usize,
    pub total: usize,
    pub count: usize,
    pub first: usize,
}

/// Start a measuring window.
pub fn reset() {
    ON.store(false, Relaxed);
    LIVE.store(0, Relaxed);
    PEAK.store(0, Relaxed);
    MAXREQ.store(0, Relaxed);
    TOTAL.store(0, Relaxed);
    COUNT.store(0, Relaxed);
    FIRST.store(0, Relaxed);
    ON.store(true, Relaxed);
}

/// End the window and read the counters.
pub fn stop() -> Stats {
    ON.store(false, Relaxed);
    Stats {
        max_request: MAXREQ.load(Relaxed),
        peak: PEAK.load(Relaxed).max(0) as usize,
        total: TOTAL.load(Relaxed),
        count: COUNT.load(Relaxed),
        first: FIRST.load(Relaxed),
    }
}
