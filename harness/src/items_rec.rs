//! Recursive derived items (catalogue ids 200000.., see gen/catalogue.py `rec_entries`).
//! The Coq type universe has no recursive types: the checks type a value of these items at a
//! FINITE UNFOLDING of the item (gen/rectypes.py) and send that type on every case line, so
//! `describe()` is a fixed marker that nothing reads.  `Model` impls are written by hand and
//! call no borsh function.  The two linear items (List, Rec) convert iteratively, so the only
//! deep recursion on a 2000-deep List is the derived code itself (serialize/deserialize, and
//! rustc's Drop/Clone/PartialEq glue) -- the checks run the harness with an unlimited stack.
#![allow(dead_code)]
use crate::model::Model;
use crate::val::Val;
use borsh::{BorshDeserialize, BorshSchema, BorshSerialize};
use std::collections::BTreeMap;

fn l(v: Vec<Val>) -> Val {
    Val::L(v)
}
fn list(v: &Val, n: usize) -> Option<&Vec<Val>> {
    match v {
        Val::L(x) if x.len() == n => Some(x),
        _ => None,
    }
}
fn unit() -> Box<Val> {
    Box::new(l(vec![]))
}

// ---------------------------------------------------------------- Tree
#[derive(BorshSerialize, BorshDeserialize, BorshSchema, Clone, Debug, PartialEq)]
pub struct Tree {
    pub label: u8,
    pub children: Vec<Tree>,
}
impl Model for Tree {
    fn describe() -> String {
        "(ref Tree)".into()
    }
    fn from_val(v: &Val) -> Option<Self> {
        let f = list(v, 2)?;
        Some(Tree { label: u8::from_val(&f[0])?, children: Vec::<Tree>::from_val(&f[1])? })
    }
    fn to_val(&self) -> Val {
        l(vec![self.label.to_val(), self.children.to_val()])
    }
}

// ---------------------------------------------------------------- List
#[derive(BorshSerialize, BorshDeserialize, BorshSchema, Clone, Debug, PartialEq)]
pub enum List {
    Nil,
    Cons(u32, Box<List>),
}
impl Model for List {
    fn describe() -> String {
        "(ref List)".into()
    }
    fn from_val(v: &Val) -> Option<Self> {
        // walk down collecting the heads, then build from the tail upwards
        let mut heads: Vec<u32> = Vec::new();
        let mut cur = v;
        loop {
            match cur {
                Val::V(0, p) => {
                    list(p, 0)?;
                    break;
                }
                Val::V(1, p) => {
                    let f = list(p, 2)?;
                    heads.push(u32::from_val(&f[0])?);
                    cur = &f[1];
                }
                _ => return None,
            }
        }
        let mut out = List::Nil;
        for h in heads.into_iter().rev() {
            out = List::Cons(h, Box::new(out));
        }
        Some(out)
    }
    fn to_val(&self) -> Val {
        let mut heads: Vec<u32> = Vec::new();
        let mut cur = self;
        while let List::Cons(h, t) = cur {
            heads.push(*h);
            cur = t;
        }
        let mut out = Val::V(0, unit());
        for h in heads.into_iter().rev() {
            out = Val::V(1, Box::new(l(vec![h.to_val(), out])));
        }
        out
    }
}

// ---------------------------------------------------------------- Json
#[derive(BorshSerialize, BorshDeserialize, BorshSchema, Clone, Debug, PartialEq)]
pub enum Json {
    Null,
    Num(i64),
    Arr(Vec<Json>),
    Obj(BTreeMap<String, Json>),
}
impl Model for Json {
    fn describe() -> String {
        "(ref Json)".into()
    }
    fn from_val(v: &Val) -> Option<Self> {
        match v {
            Val::V(0, p) => list(p, 0).map(|_| Json::Null),
            Val::V(1, p) => Some(Json::Num(i64::from_val(&list(p, 1)?[0])?)),
            Val::V(2, p) => Some(Json::Arr(Vec::<Json>::from_val(&list(p, 1)?[0])?)),
            Val::V(3, p) => Some(Json::Obj(BTreeMap::<String, Json>::from_val(&list(p, 1)?[0])?)),
            _ => None,
        }
    }
    fn to_val(&self) -> Val {
        match self {
            Json::Null => Val::V(0, unit()),
            Json::Num(n) => Val::V(1, Box::new(l(vec![n.to_val()]))),
            Json::Arr(a) => Val::V(2, Box::new(l(vec![a.to_val()]))),
            Json::Obj(m) => Val::V(3, Box::new(l(vec![m.to_val()]))),
        }
    }
}

// ---------------------------------------------------------------- Rec
#[derive(BorshSerialize, BorshDeserialize, BorshSchema, Clone, Debug, PartialEq)]
pub struct Rec(pub Option<Box<Rec>>);
impl Model for Rec {
    fn describe() -> String {
        "(ref Rec)".into()
    }
    fn from_val(v: &Val) -> Option<Self> {
        // (l (v 1 (l (v 1 ... (l (v 0 (l)))))))
        let mut n = 0usize;
        let mut cur = v;
        loop {
            match &list(cur, 1)?[0] {
                Val::V(0, p) => {
                    list(p, 0)?;
                    break;
                }
                Val::V(1, p) => {
                    n += 1;
                    cur = p;
                }
                _ => return None,
            }
        }
        let mut out = Rec(None);
        for _ in 0..n {
            out = Rec(Some(Box::new(out)));
        }
        Some(out)
    }
    fn to_val(&self) -> Val {
        let mut n = 0usize;
        let mut cur = self;
        while let Some(b) = &cur.0 {
            n += 1;
            cur = b;
        }
        let mut out = l(vec![Val::V(0, unit())]);
        for _ in 0..n {
            out = l(vec![Val::V(1, Box::new(out))]);
        }
        out
    }
}
