//! Typed schema ops: only for catalogue types that implement `BorshSchema`
//! (registered by the second list `schema_catalogue()` that gen/catalogue.py emits behind
//! its `has_schema` predicate, the mirror of the Coq `has_schema`).
//!   schema            -> `ok CONTAINER` (S-expression syntax of ext_schema.rs) of
//!                        `BorshSchemaContainer::for_type::<T>()`, TAB, `validate()` result,
//!                        TAB, `max_serialized_size()` result
//!   encws VALUE       -> representation TAB `try_to_vec_with_schema(&value)`
//!   decws HEX         -> `try_from_slice_with_schema::<T>(bytes)`
//! Untyped container-codec ops (the real BorshSerialize/BorshDeserialize of the container):
//!   cont-enc CONTAINER -> `ok HEX`   (to_vec)
//!   cont-dec HEX       -> `ok CONTAINER` (from_slice::<BorshSchemaContainer>)
//!   sch-items          -> derived items (struct with a skipped field, enum with
//!                         discriminants, ...): name | ty S-expression | container | (value-sexp bytes)*
use crate::errs::err_s;
use crate::ext_schema::{container_of, dump_container, validate_s};
use crate::model::Model;
use crate::ops::{res_bytes, RunFn};
use crate::val::{hex, parse_val, show, unhex};
use borsh::schema::BorshSchemaContainer;
use borsh::{BorshDeserialize, BorshSchema, BorshSerialize};

use crate::ext_schema::{maxsize_s, mserr_s};

pub fn run_schema<T: Model + BorshSerialize + BorshDeserialize + BorshSchema>(op: &str, args: &[&str]) -> String {
    match (op, args) {
        ("schema", _) => {
            let c = BorshSchemaContainer::for_type::<T>();
            format!("ok {}\t{}\t{}", dump_container(&c), validate_s(&c), maxsize_s(&c))
        }
        ("schema-helpers", _) => {
            // the free functions of schema_helpers.rs next to the methods they abbreviate
            let c = BorshSchemaContainer::for_type::<T>();
            let same = borsh::schema_container_of::<T>() == c;
            let h = match std::panic::catch_unwind(|| borsh::max_serialized_size::<T>()) {
                Err(_) => "panic".to_string(),
                Ok(Ok(n)) => format!("ok {}", n),
                Ok(Err(e)) => mserr_s(e),
            };
            format!("ok {}\t{}\t{}", same, h, maxsize_s(&c))
        }
        ("encws", [v]) => {
            let v = match parse_val(v) {
                Ok(v) => v,
                Err(e) => return format!("harness-error {}", e),
            };
            let x = match T::from_val(&v) {
                Some(x) => x,
                None => return "skip from_val".into(),
            };
            let repr = show(&x.to_repr());
            format!("{}\t{}", repr, res_bytes(borsh::try_to_vec_with_schema(&x)))
        }
        ("decws", [h]) => {
            let b = match unhex(h) {
                Ok(b) => b,
                Err(e) => return format!("harness-error {}", e),
            };
            match borsh::try_from_slice_with_schema::<T>(&b) {
                Ok(x) => format!("ok {}", show(&x.to_val())),
                Err(e) => err_s(&e),
            }
        }
        _ => format!("harness-error unknown schema op {}", op),
    }
}

/// registration helper used by the generated `schema_catalogue()`
pub fn sch<T: Model + BorshSerialize + BorshDeserialize + BorshSchema>(id: u32) -> (u32, RunFn) {
    (id, run_schema::<T>)
}

pub fn is_schema_op(op: &str) -> bool {
    matches!(op, "schema" | "schema-helpers" | "encws" | "decws")
}

// ------------------------------------------------------------------ derived items
// Two items named alike in different modules: `Types with the same names are not supported`
// (add_definition asserts), but the assert only sees the one-level definition.
pub mod m1 {
    use borsh::{BorshSchema, BorshSerialize};
    #[derive(BorshSerialize, BorshSchema)]
    pub struct X {
        pub a: u8,
    }
    #[derive(BorshSerialize, BorshSchema)]
    pub struct S {
        pub f: X,
    }
}
pub mod m2 {
    use borsh::{BorshSchema, BorshSerialize};
    #[derive(BorshSerialize, BorshSchema)]
    pub struct X {
        pub a: u16,
    }
    #[derive(BorshSerialize, BorshSchema)]
    pub struct S {
        pub f: X,
    }
}

#[derive(BorshSerialize, BorshSchema)]
struct Skippy {
    a: u8,
    #[borsh(skip)]
    b: u32,
    c: Vec<u16>,
}
#[derive(BorshSerialize, BorshSchema)]
struct AllSkipped {
    #[borsh(skip)]
    a: u8,
}
#[derive(BorshSerialize, BorshSchema)]
struct Tup(u8, #[borsh(skip)] u16, String);
#[derive(BorshSerialize, BorshSchema)]
struct UnitStruct;
#[derive(BorshSerialize, BorshSchema)]
#[borsh(use_discriminant = true)]
#[allow(dead_code)]
#[repr(u8)]
enum Disc {
    A = 5,
    B { x: Vec<u8>, #[borsh(skip)] y: u32 } = 9,
    C(Skippy, u8) = 200,
    D,
}
#[derive(BorshSerialize, BorshSchema)]
#[borsh(use_discriminant = false)]
#[allow(dead_code)]
#[repr(u8)]
enum Ordinal {
    A = 5,
    B(u8) = 9,
    C,
}
#[derive(BorshSerialize, BorshSchema)]
struct Outer {
    d: Option<Disc>,
    o: [Ordinal; 2],
    t: (Tup, UnitStruct),
}

const SKIPPY: &str = "(prod (struct Skippy (a b c) (0 1 0)) (prim u8) (prim u32) (seq vec (prim u16)))";
const ALLSK: &str = "(prod (struct AllSkipped (a) (1)) (prim u8))";
const TUP: &str = "(prod (struct Tup () (0 1 0)) (prim u8) (prim u16) (text string))";
const UNITS: &str = "(prod (struct UnitStruct () ()))";
fn disc_ty() -> String {
    format!(
        "(sum (enum Disc (A B C D) (5 9 200 201)) (prod (variant () ())) (prod (variant (x y) (0 1)) (seq vec (prim u8)) (prim u32)) (prod (variant () (0 0)) {} (prim u8)) (prod (variant () ())))",
        SKIPPY
    )
}
const ORDINAL: &str = "(sum (enum Ordinal (A B C) (0 1 2)) (prod (variant () ())) (prod (variant () (0)) (prim u8)) (prod (variant () ())))";
fn outer_ty() -> String {
    format!(
        "(prod (struct Outer (d o t) (0 0 0)) (sum option (prod (variant () ())) {}) (array 2 {}) (prod tuple {} {}))",
        disc_ty(),
        ORDINAL,
        TUP,
        UNITS
    )
}

fn item<T: BorshSchema + BorshSerialize>(out: &mut Vec<String>, name: &str, ty: &str, vals: &[(&str, T)]) {
    let c = std::panic::catch_unwind(|| BorshSchemaContainer::for_type::<T>());
    let cs = match c {
        Ok(c) => dump_container(&c),
        Err(_) => "panic".to_string(),
    };
    let mut rec = format!("{}|{}|{}", name, ty, cs);
    for (vs, v) in vals {
        rec.push_str(&format!("|{} {}", vs, hex(&borsh::to_vec(v).unwrap())));
    }
    out.push(rec);
}

fn items() -> String {
    let mut o = Vec::new();
    let sk = || Skippy { a: 7, b: 99, c: vec![258, 3] };
    item(&mut o, "Skippy", SKIPPY, &[("(l 7 99 (l 258 3))", sk()), ("(l 0 0 (l))", Skippy { a: 0, b: 0, c: vec![] })]);
    item(&mut o, "AllSkipped", ALLSK, &[("(l 3)", AllSkipped { a: 3 })]);
    item(&mut o, "Tup", TUP, &[("(l 1 2 (b 6869))", Tup(1, 2, "hi".into()))]);
    item(&mut o, "UnitStruct", UNITS, &[("(l)", UnitStruct)]);
    item(
        &mut o,
        "Disc",
        &disc_ty(),
        &[
            ("(v 0 (l))", Disc::A),
            ("(v 1 (l (b 0304) 77))", Disc::B { x: vec![3, 4], y: 77 }),
            ("(v 2 (l (l 7 99 (l 258 3)) 9))", Disc::C(sk(), 9)),
            ("(v 3 (l))", Disc::D),
        ],
    );
    item(&mut o, "Ordinal", ORDINAL, &[("(v 0 (l))", Ordinal::A), ("(v 1 (l 4))", Ordinal::B(4)), ("(v 2 (l))", Ordinal::C)]);
    item(
        &mut o,
        "Outer",
        &outer_ty(),
        &[(
            "(l (v 1 (v 1 (l (b 0304) 77))) (l (v 1 (l 4)) (v 2 (l))) (l (l 1 2 (b 6869)) (l)))",
            Outer { d: Some(Disc::B { x: vec![3, 4], y: 77 }), o: [Ordinal::B(4), Ordinal::C], t: (Tup(1, 2, "hi".into()), UnitStruct) },
        )],
    );
    // the same-name witness: (m1::S, m2::S)
    item(
        &mut o,
        "(m1::S, m2::S)",
        "(prod tuple (prod (struct S (f) (0)) (prod (struct X (a) (0)) (prim u8))) (prod (struct S (f) (0)) (prod (struct X (a) (0)) (prim u16))))",
        &[("(l (l (l 1)) (l (l 515)))", (m1::S { f: m1::X { a: 1 } }, m2::S { f: m2::X { a: 515 } }))],
    );
    // and the pair that IS caught: (m1::X, m2::X) panics in add_definition
    item::<(m1::X, m2::X)>(
        &mut o,
        "(m1::X, m2::X)",
        "(prod tuple (prod (struct X (a) (0)) (prim u8)) (prod (struct X (a) (0)) (prim u16)))",
        &[],
    );
    item(&mut o, "BorshSchemaContainer", "container", &[] as &[(&str, BorshSchemaContainer)]);
    o.join(";;")
}

pub fn run_untyped(op: &str, args: &[&str]) -> Option<String> {
    match (op, args) {
        ("cont-enc", [c]) => Some(match container_of(c) {
            Ok(c) => res_bytes(borsh::to_vec(&c)),
            Err(e) => format!("harness-error {}", e),
        }),
        ("cont-dec", [h]) => Some(match unhex(h) {
            Ok(b) => match borsh::from_slice::<BorshSchemaContainer>(&b) {
                Ok(c) => format!("ok {}", dump_container(&c)),
                Err(e) => err_s(&e),
            },
            Err(e) => format!("harness-error {}", e),
        }),
        ("sch-items", _) => Some(items()),
        _ => None,
    }
}
