//! C02: the one reachable "2^32 or more elements" case.  Untyped op (type field "-"):
//!
//!   zstslice <kind> <N>    `borsh::to_vec::<[Z]>(slice)` for a slice of N elements of a
//!                          zero-sized type Z; kind = unit | phantom | arr0
//!
//! A slice of a zero-sized type occupies no memory, so any length can be built from a dangling
//! (well-aligned, non-null) pointer.  `[T]` is the only collection impl without the zero-size
//! guard, so the length conversion `u32::try_from(len)` is what must refuse N >= 2^32.
use crate::ops::res_bytes;

fn zst_slice<Z: borsh::BorshSerialize>(n: usize) -> String {
    assert_eq!(core::mem::size_of::<Z>(), 0);
    // SAFETY: Z is zero-sized; a dangling aligned pointer is valid for any number of them.
    let s: &[Z] = unsafe { core::slice::from_raw_parts(core::ptr::NonNull::<Z>::dangling().as_ptr(), n) };
    res_bytes(borsh::to_vec(s))
}

pub fn run(op: &str, args: &[&str]) -> Option<String> {
    match (op, args) {
        ("zstslice", [kind, n]) => {
            let n: usize = n.parse().ok()?;
            Some(match *kind {
                "unit" => zst_slice::<()>(n),
                "phantom" => zst_slice::<core::marker::PhantomData<String>>(n),
                "arr0" => zst_slice::<[u64; 0]>(n),
                _ => return None,
            })
        }
        _ => None,
    }
}
