//! C02: the one reachable "2^32 or more elements" case.  Untyped op (type field "-"):
//!
//!   zstslice <kind> <N>    `borsh::to_vec::<[Z]>(slice)` for a slice of N elements of a
//!                          zero-sized type Z; kind = unit | phantom | arr0
//!
//! A slice of a zero-sized type occupies no memory, so any length can be built from a dangling
//! (well-aligned, non-null) pointer.  `[T]` is the only collection impl without the zero-size
//! guard, so the length conversion `u32::try_from(len)` is what must refuse N >= 2^32.
use crate::ops::res_bytes;

fn zst_slice<Z: borsh::BorshSerialize>(n: usize) -> String {
    assert_eq!(core::mem::size_of::<Z>(), 0);
    // SAFETY: Z is zero-sized; a dangling aligned pointer is valid for any number of them.
    let s: &[Z] = unsafe { core::slice::from_raw_parts(core::ptr::NonNull::<Z>::dangling().as_ptr(), n) };
    res_bytes(borsh::to_vec(s))
}

pub fn run(op: &str, args: &[&str]) -> Option<String> {
    match (op, args) {
        ("zstslice", [kind, n]) => {
            let n: usize = n.parse().ok()?;
            Some(match *kind {
                "unit" => zst_slice::<()>(n),
                "phantom" => zst_slice::<core::marker::PhantomData<String>>(n),
                "arr0" => zst_slice::<[u64; 0]>(n),
                _ => return None,
            })
        }
        // hugeseq KIND: a byte collection of exactly 2^32 elements (4 GiB of untouched zero pages) serialized into a
        // writer that only counts: the length does not fit the u32 prefix, the specification has no encoding for it.
        // -> "err KIND MSG" | "ok <bytes written>"
        #[cfg(target_pointer_width = "64")]
        ("hugeseq", [kind]) => {
            struct Count(u64);
            impl borsh::io::Write for Count {
                fn write(&mut self, b: &[u8]) -> borsh::io::Result<usize> {
                    self.0 += b.len() as u64;
                    Ok(b.len())
                }
                fn flush(&mut self) -> borsh::io::Result<()> {
                    Ok(())
                }
            }
            let v: Vec<u8> = vec![0u8; 1usize << 32];
            let mut w = Count(0);
            let r = match *kind {
                "vec" => borsh::to_writer(&mut w, &v),
                "deque" => borsh::to_writer(&mut w, &std::collections::VecDeque::from(v)),
                "boxslice" => borsh::to_writer(&mut w, &v.into_boxed_slice()),
                "slice" => borsh::to_writer(&mut w, &v[..]),
                _ => return None,
            };
            Some(match r {
                Ok(()) => format!("ok {}", w.0),
                Err(e) => crate::errs::err_s(&e),
            })
        }
        _ => None,
    }
}
