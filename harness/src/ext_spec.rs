//! C02: the one reachable "2^32 or more elements" case.  Untyped op (type field "-"):
//!
//!   zstslice <kind> <N>    `borsh::to_vec::<[Z]>(slice)` for a slice of N elements of a
//!                          zero-sized type Z; kind = unit | phantom | arr0
//!
//! A slice of a zero-sized type occupies no memory, so any length can be built from a dangling
//! (well-aligned, non-null) pointer.  `[T]` is the only collection impl without the zero-size
//! guard, so the length conversion `u32::try_from(len)` is what must refuse N >= 2^32.
use crate::ops::res_bytes;

fn zst_slice<Z: borsh::BorshSerialize>(n: usize) -> String {
    assert_eq!(core::mem::size_of::<Z>(), 0);
    // SAFETY: Z is zero-sized; a dangling aligned pointer is valid for any number of them.
    let s: &[Z] = unsafe { core::slice::from_raw_parts(core::ptr::NonNull::<Z>::dangling().as_ptr(), n) };
    res_bytes(borsh::to_vec(s))
}

pub fn run(op: &str, args: &[&str]) -> Option<String> {
    match (op, args) {
        ("zstslice", [kind, n]) => {
            let n: usize = n.parse().ok()?;
            Some(match *kind {
                "unit" => zst_slice::<()>(n),
                "phantom" => zst_slice::<core::marker::PhantomData<String>>(n),
                "arr0" => zst_slice::<[u64; 0]>(n),
                _ => return None,
            })
        }
        // bigcoll KIND N: a collection of the N elements 0..N (u32; maps: k -> k as u8), inserted in a scrambled order;
        // the generated values of the catalogue never have more than ~20 elements, so the upper bytes of every
        // length prefix other than Vec's are exercised only here.
        //   -> "ok prefix=HEX len=BYTES rt=same|diff elems=ascending|other"
        #[cfg(feature = "cfg_std")]
        ("bigcoll", [kind, n]) => {
            use std::collections::{BTreeMap, BTreeSet, HashMap, HashSet, LinkedList, VecDeque};
            let n: u32 = n.parse().ok()?;
            let order: Vec<u32> = (0..n).map(|i| ((i as u64 * 2654435761u64) % n.max(1) as u64) as u32).collect();
            // (a permutation when n is coprime with the multiplier; duplicates only make the collection smaller, and then
            //  `len` below tells: the Python side expects exactly n elements and picks n accordingly)
            fn fin<T: borsh::BorshSerialize + borsh::BorshDeserialize + PartialEq>(x: &T, elem: usize) -> Option<String> {
                let b = match borsh::to_vec(x) {
                    Ok(b) => b,
                    Err(e) => return Some(format!("enc-{}", crate::errs::err_s(&e))),
                };
                let back: T = match borsh::from_slice(&b) {
                    Ok(v) => v,
                    Err(e) => return Some(format!("dec-{} prefix={}", crate::errs::err_s(&e), b.iter().take(4).map(|x| format!("{:02x}", x)).collect::<String>())),
                };
                let body = &b[4.min(b.len())..];
                // the first u32 of every element, read back from the bytes, must ascend for the sorted kinds
                let firsts: Vec<u32> = body.chunks(elem).filter(|c| c.len() == elem).map(|c| u32::from_le_bytes([c[0], c[1], c[2], c[3]])).collect();
                let asc = firsts.windows(2).all(|w| w[0] < w[1]);
                Some(format!(
                    "ok prefix={} len={} rt={} elems={}",
                    b.iter().take(4).map(|x| format!("{:02x}", x)).collect::<String>(),
                    b.len(),
                    if &back == x { "same" } else { "diff" },
                    if asc { "ascending" } else { "other" }
                ))
            }
            match *kind {
                "btreeset" => fin(&order.iter().cloned().collect::<BTreeSet<u32>>(), 4),
                "hashset" => fin(&order.iter().cloned().collect::<HashSet<u32>>(), 4),
                "indexset" => fin(&order.iter().cloned().collect::<indexmap::IndexSet<u32>>(), 4),
                "list" => fin(&order.iter().cloned().collect::<LinkedList<u32>>(), 4),
                "deque" => fin(&order.iter().cloned().collect::<VecDeque<u32>>(), 4),
                "btreemap" => fin(&order.iter().map(|k| (*k, *k as u8)).collect::<BTreeMap<u32, u8>>(), 5),
                "hashmap" => fin(&order.iter().map(|k| (*k, *k as u8)).collect::<HashMap<u32, u8>>(), 5),
                "indexmap" => fin(&order.iter().map(|k| (*k, *k as u8)).collect::<indexmap::IndexMap<u32, u8>>(), 5),
                _ => None,
            }
        }
        // hugeseq KIND: a byte collection of exactly 2^32 elements (4 GiB of untouched zero pages) serialized into a
        // writer that only counts: the length does not fit the u32 prefix, the specification has no encoding for it.
        // -> "err KIND MSG" | "ok <bytes written>"
        #[cfg(target_pointer_width = "64")]
        ("hugeseq", [kind]) => {
            struct Count(u64);
            impl borsh::io::Write for Count {
                fn write(&mut self, b: &[u8]) -> borsh::io::Result<usize> {
                    self.0 += b.len() as u64;
                    Ok(b.len())
                }
                fn flush(&mut self) -> borsh::io::Result<()> {
                    Ok(())
                }
            }
            let v: Vec<u8> = vec![0u8; 1usize << 32];
            let mut w = Count(0);
            let r = match *kind {
                "vec" => borsh::to_writer(&mut w, &v),
                "deque" => borsh::to_writer(&mut w, &std::collections::VecDeque::from(v)),
                "boxslice" => borsh::to_writer(&mut w, &v.into_boxed_slice()),
                "slice" => borsh::to_writer(&mut w, &v[..]),
                _ => return None,
            };
            Some(match r {
                Ok(()) => format!("ok {}", w.0),
                Err(e) => crate::errs::err_s(&e),
            })
        }
        _ => None,
    }
}
