//! C15: `<[T; N] as BorshDeserialize>::deserialize_reader` observed through an
//! instrumented element type.  Untyped ops (type field "-"):
//!
//!   arr     <N> <script>              `<[Tracked; N]>::deserialize_reader(&mut &script[..])`
//!   arrnest <OUTER> <INNER> <script>  `<[[Tracked; INNER]; OUTER]>` for (3,2), (2,3), (1,1), (4,0), (0,4), (2,2)
//!   arru8   <N> <hex>                 the `[u8; N]` fast path (`array_from_reader`)
//!
//! script: the bytes the reader delivers; every element reads one byte: `o` = produce a
//! value, `E` = return an error, `P` = panic; end of input makes `u8::deserialize_reader`
//! itself fail.  "-" = empty.
//!
//! Output of arr/arrnest (the part before " | " has the same format as the Coq machine's):
//!   EVENTS OUTCOME calls=K | post=EVENTS live=IDS left=BYTES err=KIND
//! EVENTS: comma-separated `C<id>` (value constructed), `D<id>` (destructor ran), `R<ids>`
//! (array handed to the caller, ids in index order), `D?` (destructor ran on something that
//! was never constructed), "-" when empty.  ids are relative to the first id of the case.
//! post = destructor calls while the caller drops the returned array; live = ids whose
//! destructor never ran (leak).
use borsh::io::{Error, ErrorKind, Read, Result};
use borsh::BorshDeserialize;
use std::cell::{Cell, RefCell};
use std::collections::BTreeSet;
use std::mem::ManuallyDrop;

#[derive(Clone, Copy, PartialEq)]
enum Ev {
    Construct(u64),
    Drop(u64),
    /// destructor called on an id that is not live: second drop of a value of this case
    DoubleDrop(u64),
    /// destructor called on bits that were never a value of this case (uninitialised slot)
    GarbageDrop,
}

thread_local! {
    static LOG: RefCell<Vec<Ev>> = RefCell::new(Vec::new());
    static LIVE: RefCell<BTreeSet<u64>> = RefCell::new(BTreeSet::new());
    static NEXT_ID: Cell<u64> = Cell::new(0x5eed_0000_0001);
    static BASE: Cell<u64> = Cell::new(0);
    static CALLS: Cell<usize> = Cell::new(0);
}

fn log(e: Ev) {
    LOG.with(|l| l.borrow_mut().push(e));
}

/// Element type with heap ownership.  The id is stored inline (so that a destructor call on
/// a moved-out or never-written slot can still be attributed) and on the heap (so that the
/// value really owns an allocation: a leak or double free is visible to Miri / the allocator).
/// The heap part is only freed when the id is live; a second destructor call on the same
/// bits is logged instead of being turned into a double free of the process.
pub struct Tracked {
    id: u64,
    heap: ManuallyDrop<Box<(u64, u8)>>,
}

impl Tracked {
    fn new(byte: u8) -> Tracked {
        let id = NEXT_ID.with(|n| {
            let v = n.get();
            n.set(v + 1);
            v
        });
        LIVE.with(|l| l.borrow_mut().insert(id));
        log(Ev::Construct(id));
        Tracked { id, heap: ManuallyDrop::new(Box::new((id, byte))) }
    }
}

impl Drop for Tracked {
    fn drop(&mut self) {
        let id = self.id;
        let was_live = LIVE.with(|l| l.borrow_mut().remove(&id));
        if was_live {
            debug_assert_eq!(self.heap.0, id);
            log(Ev::Drop(id));
            unsafe { ManuallyDrop::drop(&mut self.heap) };
        } else {
            let base = BASE.with(|b| b.get());
            let next = NEXT_ID.with(|n| n.get());
            if id >= base && id < next {
                log(Ev::DoubleDrop(id));
            } else {
                log(Ev::GarbageDrop);
            }
        }
    }
}

impl BorshDeserialize for Tracked {
    fn deserialize_reader<R: Read>(reader: &mut R) -> Result<Self> {
        CALLS.with(|c| c.set(c.get() + 1));
        let b = u8::deserialize_reader(reader)?;
        match b {
            b'o' => Ok(Tracked::new(b)),
            b'P' => panic!("scripted panic"),
            // the kind of an element decoder's error must not matter to the guard
            b'I' => Err(Error::new(ErrorKind::Interrupted, "scripted interrupted")),
            b'U' => Err(Error::new(ErrorKind::UnexpectedEof, "scripted eof")),
            b'W' => Err(Error::new(ErrorKind::WriteZero, "scripted write-zero")),
            _ => Err(Error::new(ErrorKind::InvalidData, "scripted error")),
        }
    }
}

trait Ids {
    fn ids(&self, out: &mut Vec<u64>);
}
impl Ids for Tracked {
    fn ids(&self, out: &mut Vec<u64>) {
        out.push(self.id)
    }
}
impl<T: Ids, const N: usize> Ids for [T; N] {
    fn ids(&self, out: &mut Vec<u64>) {
        for x in self.iter() {
            x.ids(out)
        }
    }
}

fn events_s(evs: &[Ev], base: u64, ret: Option<&[u64]>) -> String {
    let mut parts: Vec<String> = evs
        .iter()
        .map(|e| match e {
            Ev::Construct(i) => format!("C{}", i - base),
            Ev::Drop(i) | Ev::DoubleDrop(i) => format!("D{}", i - base),
            Ev::GarbageDrop => "D?".to_string(),
        })
        .collect();
    if let Some(ids) = ret {
        let s: Vec<String> = ids.iter().map(|i| if *i >= base { format!("{}", i - base) } else { "?".to_string() }).collect();
        parts.push(format!("R{}", s.join(".")));
    }
    if parts.is_empty() {
        "-".to_string()
    } else {
        parts.join(",")
    }
}

fn script_bytes(s: &str) -> Vec<u8> {
    if s == "-" {
        Vec::new()
    } else {
        s.as_bytes().to_vec()
    }
}

/// One observation: decode a `T` (an array type over `Tracked`) from the script, log what
/// happens inside the call, then let the caller drop the result and log that separately.
fn observe<T: BorshDeserialize + Ids>(script: &[u8]) -> String {
    let base = NEXT_ID.with(|n| n.get());
    BASE.with(|b| b.set(base));
    LOG.with(|l| l.borrow_mut().clear());
    LIVE.with(|l| l.borrow_mut().clear());
    CALLS.with(|c| c.set(0));
    let mut slice: &[u8] = script;
    let res = std::panic::catch_unwind(std::panic::AssertUnwindSafe(|| T::deserialize_reader(&mut slice)));
    let left = slice.len();
    let calls = CALLS.with(|c| c.get());
    let inside: Vec<Ev> = LOG.with(|l| l.borrow_mut().drain(..).collect());
    let (first, outcome, err) = match res {
        Ok(Ok(arr)) => {
            let mut ids = Vec::new();
            arr.ids(&mut ids);
            let s = events_s(&inside, base, Some(&ids));
            drop(arr); // the caller's drop: logged into `post`
            (s, "returned", "-".to_string())
        }
        Ok(Err(e)) => (
            events_s(&inside, base, None),
            "failed",
            // kind and full text: the element decoder's own error must reach the caller unchanged
            format!("{}:{}", crate::errs::kind_s(e.kind()), e.to_string().replace(' ', "_")),
        ),
        Err(_) => (events_s(&inside, base, None), "panicked", "-".to_string()),
    };
    let post: Vec<Ev> = LOG.with(|l| l.borrow_mut().drain(..).collect());
    let live: Vec<String> = LIVE.with(|l| l.borrow().iter().map(|i| format!("{}", i - base)).collect());
    // do not let leaked ids of this case be mistaken for values of the next one
    LIVE.with(|l| l.borrow_mut().clear());
    format!(
        "{} {} calls={} | post={} live={} left={} err={}",
        first,
        outcome,
        calls,
        events_s(&post, base, None),
        if live.is_empty() { "-".to_string() } else { live.join(".") },
        left,
        err
    )
}

macro_rules! by_len {
    ($n:expr, $script:expr, $($k:literal)*) => {
        match $n {
            $($k => Some(observe::<[Tracked; $k]>($script)),)*
            _ => None,
        }
    };
}

fn arr(n: usize, script: &[u8]) -> Option<String> {
    by_len!(n, script, 0 1 2 3 4 5 6 7 8 9 10 11 12 13 14 15 16 17 31 32 33 64 255 256 257 1000)
}

fn arrnest(outer: usize, inner: usize, script: &[u8]) -> Option<String> {
    match (outer, inner) {
        (3, 2) => Some(observe::<[[Tracked; 2]; 3]>(script)),
        (2, 3) => Some(observe::<[[Tracked; 3]; 2]>(script)),
        (2, 2) => Some(observe::<[[Tracked; 2]; 2]>(script)),
        (1, 1) => Some(observe::<[[Tracked; 1]; 1]>(script)),
        (4, 0) => Some(observe::<[[Tracked; 0]; 4]>(script)),
        (0, 4) => Some(observe::<[[Tracked; 4]; 0]>(script)),
        _ => None,
    }
}

macro_rules! u8_by_len {
    ($n:expr, $bytes:expr, $($k:literal)*) => {
        match $n {
            $($k => Some(u8_case::<$k>($bytes)),)*
            _ => None,
        }
    };
}

fn u8_case<const N: usize>(bytes: &[u8]) -> String {
    let mut slice: &[u8] = bytes;
    match <[u8; N]>::deserialize_reader(&mut slice) {
        Ok(a) => format!("ok {} left={}", hex(&a), slice.len()),
        Err(e) => format!("err {} {}", crate::errs::kind_s(e.kind()), crate::errs::msg_s(&e.to_string())),
    }
}

fn hex(b: &[u8]) -> String {
    if b.is_empty() {
        return "-".to_string();
    }
    b.iter().map(|x| format!("{:02x}", x)).collect()
}

fn unhex(s: &str) -> Vec<u8> {
    if s == "-" {
        return Vec::new();
    }
    (0..s.len() / 2).map(|i| u8::from_str_radix(&s[2 * i..2 * i + 2], 16).unwrap_or(0)).collect()
}

pub fn run(op: &str, args: &[&str]) -> Option<String> {
    match op {
        "arr" if args.len() == 2 => {
            let n: usize = args[0].parse().ok()?;
            Some(arr(n, &script_bytes(args[1])).unwrap_or_else(|| "skip unsupported-length".to_string()))
        }
        "arrnest" if args.len() == 3 => {
            let o: usize = args[0].parse().ok()?;
            let i: usize = args[1].parse().ok()?;
            Some(arrnest(o, i, &script_bytes(args[2])).unwrap_or_else(|| "skip unsupported-shape".to_string()))
        }
        "arru8" if args.len() == 2 => {
            let n: usize = args[0].parse().ok()?;
            let b = unhex(args[1]);
            Some(u8_by_len!(n, &b, 0 1 2 3 4 5 6 7 8 9 10 11 12 13 14 15 16 17 31 32 33 64 255 256 257 1000).unwrap_or_else(|| "skip unsupported-length".to_string()))
        }
        _ => None,
    }
}
