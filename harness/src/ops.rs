//! Per-type operation tables: every op runs the real borsh implementation for a
//! concrete Rust type and prints a canonical result.
use crate::errs::err_s;
use crate::model::Model;
use crate::val::{hex, parse_val, show, unhex};
use borsh::{BorshDeserialize, BorshSerialize};

pub type RunFn = fn(&str, &[&str]) -> String;
#[cfg(any(feature = "cfg_std", feature = "cfg_nostd"))]
pub use crate::ops_schema_ty::sch; // typed schema ops (second registration list)

pub struct Entry {
    pub id: u32,
    pub describe: fn() -> String,
    pub size_zero: fn() -> bool,
    pub rust: &'static str,
    pub run: RunFn,
}

pub fn res_bytes(r: borsh::io::Result<Vec<u8>>) -> String {
    match r {
        Ok(b) => format!("ok {}", hex(&b)),
        Err(e) => err_s(&e),
    }
}

fn ser_ops<T: Model + BorshSerialize>(op: &str, args: &[&str]) -> Option<String> {
    match (op, args) {
        ("enc", [v]) => {
            let v = match parse_val(v) {
                Ok(v) => v,
                Err(e) => return Some(format!("harness-error {}", e)),
            };
            let x = match T::from_val(&v) {
                Some(x) => x,
                None => return Some("skip from_val".into()),
            };
            let repr = show(&x.to_repr());
            let r = res_bytes(borsh::to_vec(&x));
            Some(format!("{}\t{}", repr, r))
        }
        ("objlen", [v]) => {
            let v = parse_val(v).ok()?;
            let x = T::from_val(&v)?;
            Some(match borsh::object_length(&x) {
                Ok(n) => format!("ok {}", n),
                Err(e) => err_s(&e),
            })
        }
        _ => None,
    }
}

fn de_ops<T: Model + BorshDeserialize>(op: &str, args: &[&str]) -> Option<String> {
    match (op, args) {
        ("dec", [mode, h]) => {
            let b = match unhex(h) {
                Ok(b) => b,
                Err(e) => return Some(format!("harness-error {}", e)),
            };
            Some(match *mode {
                "deserialize" => {
                    let mut s: &[u8] = &b;
                    match T::deserialize(&mut s) {
                        Ok(x) => format!("ok {} {}", show(&x.to_val()), hex(s)),
                        Err(e) => err_s(&e),
                    }
                }
                "try_from_slice" => match T::try_from_slice(&b) {
                    Ok(x) => format!("ok {} -", show(&x.to_val())),
                    Err(e) => err_s(&e),
                },
                "from_slice" => match borsh::from_slice::<T>(&b) {
                    Ok(x) => format!("ok {} -", show(&x.to_val())),
                    Err(e) => err_s(&e),
                },
                "deserialize_reader" | "try_from_reader" | "from_reader" => {
                    let mut rd = CountingReader { data: &b, pos: 0 };
                    let r = match *mode {
                        "deserialize_reader" => T::deserialize_reader(&mut rd),
                        "try_from_reader" => T::try_from_reader(&mut rd),
                        _ => borsh::from_reader::<_, T>(&mut rd),
                    };
                    let pulled = rd.pos;
                    match r {
                        Ok(x) => {
                            let rest = if *mode == "deserialize_reader" { hex(&b[pulled..]) } else { "-".to_string() };
                            format!("ok {} {}\tpulled={}", show(&x.to_val()), rest, pulled)
                        }
                        Err(e) => format!("{}\tpulled={}", err_s(&e), pulled),
                    }
                }
                _ => return None,
            })
        }
        _ => None,
    }
}

/// A reader over a slice that hands out whatever is asked and counts what was pulled.
pub struct CountingReader<'a> {
    pub data: &'a [u8],
    pub pos: usize,
}
impl<'a> borsh::io::Read for CountingReader<'a> {
    fn read(&mut self, buf: &mut [u8]) -> borsh::io::Result<usize> {
        let n = buf.len().min(self.data.len() - self.pos);
        buf[..n].copy_from_slice(&self.data[self.pos..self.pos + n]);
        self.pos += n;
        Ok(n)
    }
}

/// Property oracle for the round trip, on the implementation alone.
fn rt_ops<T: Model + BorshSerialize + BorshDeserialize>(op: &str, args: &[&str]) -> Option<String> {
    match (op, args) {
        ("rt", [v, tail]) => {
            let v = parse_val(v).ok()?;
            let tail = unhex(tail).ok()?;
            let x = match T::from_val(&v) {
                Some(x) => x,
                None => return Some("skip from_val".into()),
            };
            let mut b = match borsh::to_vec(&x) {
                Ok(b) => b,
                Err(_) => return Some("skip encerr".into()),
            };
            b.extend_from_slice(&tail);
            let mut s: &[u8] = &b;
            Some(match T::deserialize(&mut s) {
                Ok(y) => {
                    if y.to_val() == x.to_val() && s == &tail[..] {
                        "ok same".to_string()
                    } else {
                        format!("diff {} {}", show(&y.to_val()), hex(s))
                    }
                }
                Err(e) => format!("dec{}", err_s(&e)),
            })
        }
        // decode, then re-encode what was decoded: is it the consumed input? (C04 oracle)
        ("dre", [h]) => {
            let b = unhex(h).ok()?;
            let mut s: &[u8] = &b;
            Some(match T::deserialize(&mut s) {
                Ok(x) => {
                    let consumed = &b[..b.len() - s.len()];
                    match borsh::to_vec(&x) {
                        Ok(again) if again == consumed => "ok same".to_string(),
                        Ok(again) => format!("diff {} {}", hex(consumed), hex(&again)),
                        Err(e) => format!("reenc{}", err_s(&e)),
                    }
                }
                Err(e) => format!("rej {}", err_s(&e)),
            })
        }
        _ => None,
    }
}

// Ops contributed by the other modules of the harness.  The derive_harness crate shares this
// file by path without those modules (it enables neither cfg_std nor cfg_nostd).
#[cfg(any(feature = "cfg_std", feature = "cfg_nostd"))]
fn ext_full<T: Model + BorshSerialize + BorshDeserialize>(op: &str, args: &[&str]) -> Option<String> {
    crate::ops_io::io_ser_ops::<T>(op, args)
        .or_else(|| crate::ops_io::io_de_ops::<T>(op, args))
        .or_else(|| crate::ops_canon::ops::<T>(op, args))
        .or_else(|| crate::ops_cost::cost_ops::<T>(op, args))
}
#[cfg(any(feature = "cfg_std", feature = "cfg_nostd"))]
fn ext_ser<T: Model + BorshSerialize>(op: &str, args: &[&str]) -> Option<String> {
    crate::ops_io::io_ser_ops::<T>(op, args).or_else(|| crate::ops_canon::ops::<T>(op, args))
}
#[cfg(not(any(feature = "cfg_std", feature = "cfg_nostd")))]
fn ext_full<T: Model + BorshSerialize + BorshDeserialize>(_op: &str, _args: &[&str]) -> Option<String> {
    None
}
#[cfg(not(any(feature = "cfg_std", feature = "cfg_nostd")))]
fn ext_ser<T: Model + BorshSerialize>(_op: &str, _args: &[&str]) -> Option<String> {
    None
}

pub fn run_full<T: Model + BorshSerialize + BorshDeserialize>(op: &str, args: &[&str]) -> String {
    ser_ops::<T>(op, args)
        .or_else(|| de_ops::<T>(op, args))
        .or_else(|| rt_ops::<T>(op, args))
        .or_else(|| ext_full::<T>(op, args))
        .unwrap_or_else(|| format!("harness-error unknown op {}", op))
}
pub fn run_ser<T: Model + BorshSerialize>(op: &str, args: &[&str]) -> String {
    ser_ops::<T>(op, args)
        .or_else(|| ext_ser::<T>(op, args))
        .unwrap_or_else(|| "skip ser-only".to_string())
}

pub fn full<T: Model + BorshSerialize + BorshDeserialize>(id: u32, rust: &'static str) -> Entry {
    Entry {
        id,
        describe: T::describe,
        size_zero: || core::mem::size_of::<T>() == 0,
        rust,
        run: run_full::<T>,
    }
}
pub fn ser_only<T: Model + BorshSerialize>(id: u32, rust: &'static str) -> Entry {
    Entry {
        id,
        describe: T::describe,
        size_zero: || core::mem::size_of::<T>() == 0,
        rust,
        run: run_ser::<T>,
    }
}
