//! Hand-written derived items of the main catalogue (a generated corpus of derived items is
//! exercised separately by derive_harness / checks C06, C18).  Each `Model` impl is written by
//! hand: `to_val` reports skipped fields as their default (the logical value), `to_repr` the
//! actual value.
#![allow(dead_code)]
use crate::model::Model;
use crate::val::Val;
use borsh::{BorshDeserialize, BorshSchema, BorshSerialize};

fn l(v: Vec<Val>) -> Val {
    Val::L(v)
}
fn list(v: &Val, n: usize) -> Option<&Vec<Val>> {
    match v {
        Val::L(x) if x.len() == n => Some(x),
        _ => None,
    }
}

#[derive(BorshSerialize, BorshDeserialize, BorshSchema, Clone, Debug, PartialEq)]
pub struct SNamed {
    pub a: u8,
    #[borsh(skip)]
    pub b: u32,
    pub c: String,
}
impl Model for SNamed {
    fn describe() -> String {
        "(prod (struct SNamed (a b c) (0 1 0)) (prim u8) (prim u32) (text string))".into()
    }
    fn from_val(v: &Val) -> Option<Self> {
        let f = list(v, 3)?;
        Some(SNamed { a: u8::from_val(&f[0])?, b: u32::from_val(&f[1])?, c: String::from_val(&f[2])? })
    }
    fn to_val(&self) -> Val {
        l(vec![self.a.to_val(), u32::default().to_val(), self.c.to_val()])
    }
    fn to_repr(&self) -> Val {
        l(vec![self.a.to_repr(), self.b.to_repr(), self.c.to_repr()])
    }
}

#[derive(BorshSerialize, BorshDeserialize, BorshSchema, Clone, Debug, PartialEq)]
pub struct STuple(pub u16, #[borsh(skip)] pub Vec<u8>, pub bool);
impl Model for STuple {
    fn describe() -> String {
        "(prod (struct STuple () (0 1 0)) (prim u16) (seq vec (prim u8)) (prim bool))".into()
    }
    fn from_val(v: &Val) -> Option<Self> {
        let f = list(v, 3)?;
        Some(STuple(u16::from_val(&f[0])?, Vec::<u8>::from_val(&f[1])?, bool::from_val(&f[2])?))
    }
    fn to_val(&self) -> Val {
        l(vec![self.0.to_val(), Vec::<u8>::new().to_val(), self.2.to_val()])
    }
    fn to_repr(&self) -> Val {
        l(vec![self.0.to_repr(), self.1.to_repr(), self.2.to_repr()])
    }
}

#[derive(BorshSerialize, BorshDeserialize, BorshSchema, Clone, Copy, Debug, PartialEq)]
pub struct SUnit;
impl Model for SUnit {
    fn describe() -> String {
        "(prod (struct SUnit () ()))".into()
    }
    fn from_val(v: &Val) -> Option<Self> {
        list(v, 0).map(|_| SUnit)
    }
    fn to_val(&self) -> Val {
        l(vec![])
    }
}

#[derive(BorshSerialize, BorshDeserialize, BorshSchema, Clone, Debug, PartialEq)]
pub enum EPlain {
    A,
    B(u8, String),
    C {
        x: i16,
        #[borsh(skip)]
        y: u8,
    },
}
impl Model for EPlain {
    fn describe() -> String {
        "(sum (enum EPlain (A B C) (0 1 2)) (prod (variant () ())) (prod (variant () (0 0)) (prim u8) (text string)) (prod (variant (x y) (0 1)) (prim i16) (prim u8)))".into()
    }
    fn from_val(v: &Val) -> Option<Self> {
        match v {
            Val::V(0, p) => list(p, 0).map(|_| EPlain::A),
            Val::V(1, p) => {
                let f = list(p, 2)?;
                Some(EPlain::B(u8::from_val(&f[0])?, String::from_val(&f[1])?))
            }
            Val::V(2, p) => {
                let f = list(p, 2)?;
                Some(EPlain::C { x: i16::from_val(&f[0])?, y: u8::from_val(&f[1])? })
            }
            _ => None,
        }
    }
    fn to_val(&self) -> Val {
        match self {
            EPlain::A => Val::V(0, Box::new(l(vec![]))),
            EPlain::B(a, b) => Val::V(1, Box::new(l(vec![a.to_val(), b.to_val()]))),
            EPlain::C { x, .. } => Val::V(2, Box::new(l(vec![x.to_val(), u8::default().to_val()]))),
        }
    }
    fn to_repr(&self) -> Val {
        match self {
            EPlain::A => Val::V(0, Box::new(l(vec![]))),
            EPlain::B(a, b) => Val::V(1, Box::new(l(vec![a.to_repr(), b.to_repr()]))),
            EPlain::C { x, y } => Val::V(2, Box::new(l(vec![x.to_repr(), y.to_repr()]))),
        }
    }
}

#[derive(BorshSerialize, BorshDeserialize, BorshSchema, Clone, Copy, Debug, PartialEq, Eq, PartialOrd, Ord, Hash)]
#[borsh(use_discriminant = true)]
pub enum EDisc {
    X = 5,
    Y,
    Z = 1 << 3,
    W,
}
impl Model for EDisc {
    fn describe() -> String {
        "(sum (enum EDisc (X Y Z W) (5 6 8 9)) (prod (variant () ())) (prod (variant () ())) (prod (variant () ())) (prod (variant () ())))".into()
    }
    fn from_val(v: &Val) -> Option<Self> {
        match v {
            Val::V(i, p) if list(p, 0).is_some() => match i {
                0 => Some(EDisc::X),
                1 => Some(EDisc::Y),
                2 => Some(EDisc::Z),
                3 => Some(EDisc::W),
                _ => None,
            },
            _ => None,
        }
    }
    fn to_val(&self) -> Val {
        let i = match self {
            EDisc::X => 0,
            EDisc::Y => 1,
            EDisc::Z => 2,
            EDisc::W => 3,
        };
        Val::V(i, Box::new(l(vec![])))
    }
}

/// a derived struct usable as a key (Ord, Hash): fields in declaration order, as `derive(Ord)` compares
#[derive(BorshSerialize, BorshDeserialize, BorshSchema, Clone, Debug, PartialEq, Eq, PartialOrd, Ord, Hash)]
pub struct KStruct {
    pub a: i8,
    pub b: String,
}
impl Model for KStruct {
    fn describe() -> String {
        "(prod (struct KStruct (a b) (0 0)) (prim i8) (text string))".into()
    }
    fn from_val(v: &Val) -> Option<Self> {
        let f = list(v, 2)?;
        Some(KStruct { a: i8::from_val(&f[0])?, b: String::from_val(&f[1])? })
    }
    fn to_val(&self) -> Val {
        l(vec![self.a.to_val(), self.b.to_val()])
    }
}

/// a derived enum usable as a key: `derive(Ord)` orders by the variant's discriminant (here = ordinal), then fields;
/// `KDesc` below has discriminants that are not ascending
#[derive(BorshSerialize, BorshDeserialize, BorshSchema, Clone, Debug, PartialEq, Eq, PartialOrd, Ord, Hash)]
pub enum KEnum {
    P,
    Q(u8),
    R { n: i16 },
}
impl Model for KEnum {
    fn describe() -> String {
        "(sum (enum KEnum (P Q R) (0 1 2)) (prod (variant () ())) (prod (variant () (0)) (prim u8)) (prod (variant (n) (0)) (prim i16)))".into()
    }
    fn from_val(v: &Val) -> Option<Self> {
        match v {
            Val::V(0, p) => list(p, 0).map(|_| KEnum::P),
            Val::V(1, p) => Some(KEnum::Q(u8::from_val(&list(p, 1)?[0])?)),
            Val::V(2, p) => Some(KEnum::R { n: i16::from_val(&list(p, 1)?[0])? }),
            _ => None,
        }
    }
    fn to_val(&self) -> Val {
        match self {
            KEnum::P => Val::V(0, Box::new(l(vec![]))),
            KEnum::Q(a) => Val::V(1, Box::new(l(vec![a.to_val()]))),
            KEnum::R { n } => Val::V(2, Box::new(l(vec![n.to_val()]))),
        }
    }
}

/// nesting: a struct holding other derived items and collections of them
#[derive(BorshSerialize, BorshDeserialize, BorshSchema, Clone, Debug, PartialEq)]
pub struct SNest {
    pub head: EPlain,
    pub items: Vec<SNamed>,
    pub tag: Option<EDisc>,
    pub pair: (STuple, SUnit),
}
impl Model for SNest {
    fn describe() -> String {
        format!(
            "(prod (struct SNest (head items tag pair) (0 0 0 0)) {} {} {} {})",
            EPlain::describe(),
            Vec::<SNamed>::describe(),
            Option::<EDisc>::describe(),
            <(STuple, SUnit)>::describe()
        )
    }
    fn from_val(v: &Val) -> Option<Self> {
        let f = list(v, 4)?;
        Some(SNest {
            head: EPlain::from_val(&f[0])?,
            items: Vec::<SNamed>::from_val(&f[1])?,
            tag: Option::<EDisc>::from_val(&f[2])?,
            pair: <(STuple, SUnit)>::from_val(&f[3])?,
        })
    }
    fn to_val(&self) -> Val {
        l(vec![self.head.to_val(), self.items.to_val(), self.tag.to_val(), self.pair.to_val()])
    }
    fn to_repr(&self) -> Val {
        l(vec![self.head.to_repr(), self.items.to_repr(), self.tag.to_repr(), self.pair.to_repr()])
    }
}

/// Two items with the SAME declaration ("Msg") and different definitions, in different modules: a
/// schema looked up by declaration alone (instead of being compared as a whole) would confuse them.
pub mod v1 {
    use super::*;
    #[derive(BorshSerialize, BorshDeserialize, BorshSchema, Clone, Debug, PartialEq)]
    pub struct Msg {
        pub a: u32,
        pub b: u32,
    }
    impl Model for Msg {
        fn describe() -> String {
            "(prod (struct Msg (a b) (0 0)) (prim u32) (prim u32))".into()
        }
        fn from_val(v: &Val) -> Option<Self> {
            let f = list(v, 2)?;
            Some(Msg { a: u32::from_val(&f[0])?, b: u32::from_val(&f[1])? })
        }
        fn to_val(&self) -> Val {
            l(vec![self.a.to_val(), self.b.to_val()])
        }
    }
}
pub mod v2 {
    use super::*;
    #[derive(BorshSerialize, BorshDeserialize, BorshSchema, Clone, Debug, PartialEq)]
    pub struct Msg {
        pub id: u64,
    }
    impl Model for Msg {
        fn describe() -> String {
            "(prod (struct Msg (id) (0)) (prim u64))".into()
        }
        fn from_val(v: &Val) -> Option<Self> {
            let f = list(v, 1)?;
            Some(Msg { id: u64::from_val(&f[0])? })
        }
        fn to_val(&self) -> Val {
            l(vec![self.id.to_val()])
        }
    }
}

/// a single-variant unit enum WITHOUT a `repr`: zero-sized in memory (rustc needs no tag for it), one tag byte on
/// the wire - `Vec<U0>` is refused by the zero-size guard although its elements occupy the wire
#[derive(BorshSerialize, BorshDeserialize, BorshSchema, Clone, Copy, Debug, PartialEq, Eq, PartialOrd, Ord, Hash)]
pub enum U0 {
    A,
}
impl Model for U0 {
    fn describe() -> String {
        "(sum (enum U0 (A) (0)) (prod (variant () ())))".into()
    }
    fn from_val(v: &Val) -> Option<Self> {
        match v {
            Val::V(0, p) if list(p, 0).is_some() => Some(U0::A),
            _ => None,
        }
    }
    fn to_val(&self) -> Val {
        Val::V(0, Box::new(l(vec![])))
    }
}

/// a key enum whose discriminants are NOT ascending in declaration order, written to the wire as they are
/// (`use_discriminant = true`): `derive(Ord)` compares the DISCRIMINANT VALUES, so B < C < A - a `BTreeSet<KDesc>`
/// iterates, is written and is strictly decoded in that order (tags 1, 3, 5), not in declaration order
#[derive(BorshSerialize, BorshDeserialize, BorshSchema, Clone, Copy, Debug, PartialEq, Eq, PartialOrd, Ord, Hash)]
#[borsh(use_discriminant = true)]
pub enum KDesc {
    A = 5,
    B = 1,
    C = 3,
}
impl Model for KDesc {
    fn describe() -> String {
        "(sum (enum KDesc (A B C) (5 1 3)) (prod (variant () ())) (prod (variant () ())) (prod (variant () ())))".into()
    }
    fn from_val(v: &Val) -> Option<Self> {
        match v {
            Val::V(i, p) if list(p, 0).is_some() => match i {
                0 => Some(KDesc::A),
                1 => Some(KDesc::B),
                2 => Some(KDesc::C),
                _ => None,
            },
            _ => None,
        }
    }
    fn to_val(&self) -> Val {
        let i = match self {
            KDesc::A => 0,
            KDesc::B => 1,
            KDesc::C => 2,
        };
        Val::V(i, Box::new(l(vec![])))
    }
}

/// explicit ASCENDING discriminants that are NOT written (`use_discriminant = false`: tags are the ordinals
/// 0, 1, 2): discriminant order = ordinal order = tag order, with payloads compared after the variant
#[derive(BorshSerialize, BorshDeserialize, BorshSchema, Clone, Copy, Debug, PartialEq, Eq, PartialOrd, Ord, Hash)]
#[borsh(use_discriminant = false)]
pub enum KAsc {
    A = 2,
    B = 7,
    C = 9,
}
impl Model for KAsc {
    fn describe() -> String {
        "(sum (enum KAsc (A B C) (0 1 2)) (prod (variant () ())) (prod (variant () ())) (prod (variant () ())))".into()
    }
    fn from_val(v: &Val) -> Option<Self> {
        match v {
            Val::V(i, p) if list(p, 0).is_some() => match i {
                0 => Some(KAsc::A),
                1 => Some(KAsc::B),
                2 => Some(KAsc::C),
                _ => None,
            },
            _ => None,
        }
    }
    fn to_val(&self) -> Val {
        let i = match self {
            KAsc::A => 0,
            KAsc::B => 1,
            KAsc::C => 2,
        };
        Val::V(i, Box::new(l(vec![])))
    }
}

/// a struct that derives `Default`, used as the type of a SKIPPED field
#[derive(BorshSerialize, BorshDeserialize, BorshSchema, Clone, Debug, PartialEq, Default)]
pub struct SInnerD {
    pub x: u32,
    pub y: String,
}
impl Model for SInnerD {
    fn describe() -> String {
        "(prod (struct SInnerD (x y) (0 0)) (prim u32) (text string))".into()
    }
    fn from_val(v: &Val) -> Option<Self> {
        let f = list(v, 2)?;
        Some(SInnerD { x: u32::from_val(&f[0])?, y: String::from_val(&f[1])? })
    }
    fn to_val(&self) -> Val {
        l(vec![self.x.to_val(), self.y.to_val()])
    }
}

/// skipped fields of a derived struct type and of `Cow<str>`: they come back as `Default`
#[derive(BorshSerialize, BorshDeserialize, BorshSchema, Clone, Debug, PartialEq)]
pub struct SOuter {
    pub a: u8,
    #[borsh(skip)]
    pub b: SInnerD,
    pub c: Vec<u8>,
    #[borsh(skip)]
    pub d: std::borrow::Cow<'static, str>,
}
impl Model for SOuter {
    fn describe() -> String {
        "(prod (struct SOuter (a b c d) (0 1 0 1)) (prim u8) (prod (struct SInnerD (x y) (0 0)) (prim u32) (text string)) (seq vec (prim u8)) (wrap cow (text str)))".into()
    }
    fn from_val(v: &Val) -> Option<Self> {
        let f = list(v, 4)?;
        Some(SOuter {
            a: u8::from_val(&f[0])?,
            b: SInnerD::from_val(&f[1])?,
            c: Vec::<u8>::from_val(&f[2])?,
            d: std::borrow::Cow::<'static, str>::from_val(&f[3])?,
        })
    }
    fn to_val(&self) -> Val {
        l(vec![self.a.to_val(), SInnerD::default().to_val(), self.c.to_val(), std::borrow::Cow::<'static, str>::default().to_val()])
    }
    fn to_repr(&self) -> Val {
        l(vec![self.a.to_repr(), self.b.to_repr(), self.c.to_repr(), self.d.to_repr()])
    }
}
