//! `Model`: the bridge between Rust values of a concrete type and the `Val`
//! representation the Coq model works on.  Written by hand, independent of borsh:
//! nothing here calls a borsh function.
#![allow(clippy::type_complexity)]
use crate::val::{bytes_val, val_bytes, Val};
use std::borrow::Cow;
use std::cell::{Cell, RefCell};
use std::collections::{BTreeMap, BTreeSet, LinkedList, VecDeque};
use std::hash::Hash;
use std::marker::PhantomData;
use std::rc::Rc;
use std::sync::Arc;

pub trait Model: Sized + 'static {
    /// the `ty` term (S-expression) this Rust type stands for
    fn describe() -> String;
    fn from_val(v: &Val) -> Option<Self>;
    /// logical value: hash collections listed in ascending `Ord` order
    fn to_val(&self) -> Val;
    /// representation: actual iteration order, deque as its two slices
    fn to_repr(&self) -> Val {
        self.to_val()
    }
}

fn list(v: &Val) -> Option<&Vec<Val>> {
    match v {
        Val::L(l) => Some(l),
        _ => None,
    }
}

// ---------------------------------------------------------------- primitives
macro_rules! impl_uint {
    ($t:ty, $name:expr) => {
        impl Model for $t {
            fn describe() -> String {
                format!("(prim {})", $name)
            }
            fn from_val(v: &Val) -> Option<Self> {
                match v {
                    Val::N(n) => <$t>::try_from(*n).ok(),
                    _ => None,
                }
            }
            fn to_val(&self) -> Val {
                Val::N(*self as u128)
            }
        }
    };
}
impl_uint!(u8, "u8");
impl_uint!(u16, "u16");
impl_uint!(u32, "u32");
impl_uint!(u64, "u64");
impl_uint!(u128, "u128");

macro_rules! impl_sint {
    ($t:ty, $u:ty, $name:expr) => {
        impl Model for $t {
            fn describe() -> String {
                format!("(prim {})", $name)
            }
            fn from_val(v: &Val) -> Option<Self> {
                match v {
                    Val::N(n) => <$u>::try_from(*n).ok().map(|x| x as $t),
                    _ => None,
                }
            }
            fn to_val(&self) -> Val {
                Val::N((*self as $u) as u128)
            }
        }
    };
}
impl_sint!(i8, u8, "i8");
impl_sint!(i16, u16, "i16");
impl_sint!(i32, u32, "i32");
impl_sint!(i64, u64, "i64");
impl_sint!(i128, u128, "i128");

impl Model for usize {
    fn describe() -> String {
        "(prim usize)".into()
    }
    fn from_val(v: &Val) -> Option<Self> {
        u64::from_val(v).map(|x| x as usize)
    }
    fn to_val(&self) -> Val {
        Val::N(*self as u64 as u128)
    }
}
impl Model for isize {
    fn describe() -> String {
        "(prim isize)".into()
    }
    fn from_val(v: &Val) -> Option<Self> {
        i64::from_val(v).map(|x| x as isize)
    }
    fn to_val(&self) -> Val {
        (*self as i64).to_val()
    }
}

macro_rules! impl_nonzero {
    ($t:ty, $inner:ty, $name:expr) => {
        impl Model for $t {
            fn describe() -> String {
                format!("(prim {})", $name)
            }
            fn from_val(v: &Val) -> Option<Self> {
                <$inner>::from_val(v).and_then(<$t>::new)
            }
            fn to_val(&self) -> Val {
                self.get().to_val()
            }
        }
    };
}
impl_nonzero!(core::num::NonZeroU8, u8, "nzu8");
impl_nonzero!(core::num::NonZeroU16, u16, "nzu16");
impl_nonzero!(core::num::NonZeroU32, u32, "nzu32");
impl_nonzero!(core::num::NonZeroU64, u64, "nzu64");
impl_nonzero!(core::num::NonZeroU128, u128, "nzu128");
impl_nonzero!(core::num::NonZeroI8, i8, "nzi8");
impl_nonzero!(core::num::NonZeroI16, i16, "nzi16");
impl_nonzero!(core::num::NonZeroI32, i32, "nzi32");
impl_nonzero!(core::num::NonZeroI64, i64, "nzi64");
impl_nonzero!(core::num::NonZeroI128, i128, "nzi128");
impl_nonzero!(core::num::NonZeroUsize, usize, "nzusize");

impl Model for f32 {
    fn describe() -> String {
        "(prim f32)".into()
    }
    fn from_val(v: &Val) -> Option<Self> {
        u32::from_val(v).map(f32::from_bits)
    }
    fn to_val(&self) -> Val {
        Val::N(self.to_bits() as u128)
    }
}
impl Model for f64 {
    fn describe() -> String {
        "(prim f64)".into()
    }
    fn from_val(v: &Val) -> Option<Self> {
        u64::from_val(v).map(f64::from_bits)
    }
    fn to_val(&self) -> Val {
        Val::N(self.to_bits() as u128)
    }
}
impl Model for bool {
    fn describe() -> String {
        "(prim bool)".into()
    }
    fn from_val(v: &Val) -> Option<Self> {
        match v {
            Val::N(0) => Some(false),
            Val::N(1) => Some(true),
            _ => None,
        }
    }
    fn to_val(&self) -> Val {
        Val::N(*self as u128)
    }
}

// ---------------------------------------------------------------- units
impl Model for () {
    fn describe() -> String {
        "(unit unit)".into()
    }
    fn from_val(v: &Val) -> Option<Self> {
        list(v).filter(|l| l.is_empty()).map(|_| ())
    }
    fn to_val(&self) -> Val {
        Val::L(vec![])
    }
}
impl<X: 'static> Model for PhantomData<X> {
    fn describe() -> String {
        "(unit phantom)".into()
    }
    fn from_val(v: &Val) -> Option<Self> {
        list(v).filter(|l| l.is_empty()).map(|_| PhantomData)
    }
    fn to_val(&self) -> Val {
        Val::L(vec![])
    }
}
impl Model for core::ops::RangeFull {
    fn describe() -> String {
        "(unit rangefull)".into()
    }
    fn from_val(v: &Val) -> Option<Self> {
        list(v).filter(|l| l.is_empty()).map(|_| ..)
    }
    fn to_val(&self) -> Val {
        Val::L(vec![])
    }
}

// ---------------------------------------------------------------- text
impl Model for String {
    fn describe() -> String {
        "(text string)".into()
    }
    fn from_val(v: &Val) -> Option<Self> {
        String::from_utf8(val_bytes(v)?).ok()
    }
    fn to_val(&self) -> Val {
        bytes_val(self.as_bytes())
    }
}
macro_rules! impl_str_wrap {
    ($t:ty, $w:expr, $mk:expr) => {
        impl Model for $t {
            fn describe() -> String {
                format!("(wrap {} (text str))", $w)
            }
            fn from_val(v: &Val) -> Option<Self> {
                String::from_val(v).map($mk)
            }
            fn to_val(&self) -> Val {
                bytes_val(self.as_bytes())
            }
        }
    };
}
impl_str_wrap!(&'static str, "ref", |s: String| &*Box::leak(s.into_boxed_str()));
impl_str_wrap!(Box<str>, "box", |s: String| s.into_boxed_str());
impl_str_wrap!(Rc<str>, "rc", |s: String| Rc::from(s));
impl_str_wrap!(Arc<str>, "arc", |s: String| Arc::from(s));
impl_str_wrap!(Cow<'static, str>, "cow", |s: String| Cow::Owned(s));

// ---------------------------------------------------------------- wrappers (sized)
macro_rules! impl_wrap {
    ($w:ident, $name:expr, $mk:expr, $get:expr) => {
        impl<T: Model> Model for $w<T> {
            fn describe() -> String {
                format!("(wrap {} {})", $name, T::describe())
            }
            fn from_val(v: &Val) -> Option<Self> {
                T::from_val(v).map($mk)
            }
            fn to_val(&self) -> Val {
                let f: fn(&Self) -> Val = $get;
                f(self)
            }
            fn to_repr(&self) -> Val {
                let inner: &T = &**self;
                inner.to_repr()
            }
        }
    };
}
impl_wrap!(Box, "box", Box::new, |s| (**s).to_val());
impl_wrap!(Rc, "rc", Rc::new, |s| (**s).to_val());
impl_wrap!(Arc, "arc", Arc::new, |s| (**s).to_val());

impl<T: Model> Model for &'static T {
    fn describe() -> String {
        format!("(wrap ref {})", T::describe())
    }
    fn from_val(v: &Val) -> Option<Self> {
        T::from_val(v).map(|x| &*Box::leak(Box::new(x)))
    }
    fn to_val(&self) -> Val {
        (**self).to_val()
    }
    fn to_repr(&self) -> Val {
        (**self).to_repr()
    }
}
impl<T: Model + Clone> Model for Cow<'static, T> {
    fn describe() -> String {
        format!("(wrap cow {})", T::describe())
    }
    fn from_val(v: &Val) -> Option<Self> {
        T::from_val(v).map(Cow::Owned)
    }
    fn to_val(&self) -> Val {
        self.as_ref().to_val()
    }
    fn to_repr(&self) -> Val {
        self.as_ref().to_repr()
    }
}
impl<T: Model + Copy> Model for Cell<T> {
    fn describe() -> String {
        format!("(wrap cell {})", T::describe())
    }
    fn from_val(v: &Val) -> Option<Self> {
        T::from_val(v).map(Cell::new)
    }
    fn to_val(&self) -> Val {
        self.get().to_val()
    }
    fn to_repr(&self) -> Val {
        self.get().to_repr()
    }
}
impl<T: Model> Model for RefCell<T> {
    fn describe() -> String {
        format!("(wrap refcell {})", T::describe())
    }
    fn from_val(v: &Val) -> Option<Self> {
        T::from_val(v).map(RefCell::new)
    }
    fn to_val(&self) -> Val {
        self.borrow().to_val()
    }
    fn to_repr(&self) -> Val {
        self.borrow().to_repr()
    }
}

// ---------------------------------------------------------------- slices (unsized, under a wrapper)
macro_rules! impl_slice_wrap {
    ($t:ty, $w:expr, $mk:expr) => {
        impl<T: Model + Clone> Model for $t {
            fn describe() -> String {
                format!("(wrap {} (seq slice {}))", $w, T::describe())
            }
            fn from_val(v: &Val) -> Option<Self> {
                let l = list(v)?;
                let mut out = Vec::with_capacity(l.len());
                for x in l {
                    out.push(T::from_val(x)?);
                }
                Some($mk(out))
            }
            fn to_val(&self) -> Val {
                Val::L(self.iter().map(|x| x.to_val()).collect())
            }
            fn to_repr(&self) -> Val {
                Val::L(self.iter().map(|x| x.to_repr()).collect())
            }
        }
    };
}
impl_slice_wrap!(Box<[T]>, "box", |v: Vec<T>| v.into_boxed_slice());
impl_slice_wrap!(Rc<[T]>, "rc", |v: Vec<T>| Rc::from(v));
impl_slice_wrap!(Arc<[T]>, "arc", |v: Vec<T>| Arc::from(v));
impl_slice_wrap!(Cow<'static, [T]>, "cow", |v: Vec<T>| Cow::Owned(v));
impl_slice_wrap!(&'static [T], "ref", |v: Vec<T>| &*Box::leak(v.into_boxed_slice()));

// ---------------------------------------------------------------- sequences
fn from_list<T: Model>(v: &Val) -> Option<Vec<T>> {
    let l = list(v)?;
    let mut out = Vec::with_capacity(l.len());
    for x in l {
        out.push(T::from_val(x)?);
    }
    Some(out)
}

impl<T: Model> Model for Vec<T> {
    fn describe() -> String {
        format!("(seq vec {})", T::describe())
    }
    fn from_val(v: &Val) -> Option<Self> {
        from_list(v)
    }
    fn to_val(&self) -> Val {
        Val::L(self.iter().map(|x| x.to_val()).collect())
    }
    fn to_repr(&self) -> Val {
        Val::L(self.iter().map(|x| x.to_repr()).collect())
    }
}
impl<T: Model> Model for LinkedList<T> {
    fn describe() -> String {
        format!("(seq list {})", T::describe())
    }
    fn from_val(v: &Val) -> Option<Self> {
        from_list(v).map(|l: Vec<T>| l.into_iter().collect())
    }
    fn to_val(&self) -> Val {
        Val::L(self.iter().map(|x| x.to_val()).collect())
    }
    fn to_repr(&self) -> Val {
        Val::L(self.iter().map(|x| x.to_repr()).collect())
    }
}
impl<T: Model> Model for VecDeque<T> {
    fn describe() -> String {
        format!("(seq deque {})", T::describe())
    }
    /// Accepts (l front back) and tries to reproduce that split; whatever split
    /// results is reported by `to_repr`.
    fn from_val(v: &Val) -> Option<Self> {
        let l = list(v)?;
        if l.len() != 2 {
            return None;
        }
        let a: Vec<T> = from_list(&l[0])?;
        let b: Vec<T> = from_list(&l[1])?;
        let mut d = VecDeque::with_capacity(a.len() + b.len() + 1);
        for x in b {
            d.push_back(x);
        }
        for x in a.into_iter().rev() {
            d.push_front(x);
        }
        Some(d)
    }
    fn to_val(&self) -> Val {
        let (a, b) = self.as_slices();
        Val::L(vec![
            Val::L(a.iter().chain(b.iter()).map(|x| x.to_val()).collect()),
            Val::L(vec![]),
        ])
    }
    fn to_repr(&self) -> Val {
        let (a, b) = self.as_slices();
        Val::L(vec![
            Val::L(a.iter().map(|x| x.to_repr()).collect()),
            Val::L(b.iter().map(|x| x.to_repr()).collect()),
        ])
    }
}
impl<T: Model + Ord> Model for BTreeSet<T> {
    fn describe() -> String {
        format!("(seq btreeset {})", T::describe())
    }
    fn from_val(v: &Val) -> Option<Self> {
        from_list(v).map(|l: Vec<T>| l.into_iter().collect())
    }
    fn to_val(&self) -> Val {
        Val::L(self.iter().map(|x| x.to_val()).collect())
    }
}
impl<K: Model + Ord, V: Model> Model for BTreeMap<K, V> {
    fn describe() -> String {
        format!("(seq btreemap (prod tuple {} {}))", K::describe(), V::describe())
    }
    fn from_val(v: &Val) -> Option<Self> {
        from_list(v).map(|l: Vec<(K, V)>| l.into_iter().collect())
    }
    fn to_val(&self) -> Val {
        Val::L(self.iter().map(|(k, v)| Val::L(vec![k.to_val(), v.to_val()])).collect())
    }
    fn to_repr(&self) -> Val {
        Val::L(self.iter().map(|(k, v)| Val::L(vec![k.to_repr(), v.to_repr()])).collect())
    }
}

macro_rules! impl_hash_collections {
    ($set:ident, $map:ident) => {
        impl<T: Model + Ord + Hash, S: std::hash::BuildHasher + Default + 'static> Model for $set<T, S> {
            fn describe() -> String {
                format!("(seq hashset {})", T::describe())
            }
            fn from_val(v: &Val) -> Option<Self> {
                from_list(v).map(|l: Vec<T>| l.into_iter().collect())
            }
            fn to_val(&self) -> Val {
                let mut l: Vec<&T> = self.iter().collect();
                l.sort();
                Val::L(l.into_iter().map(|x| x.to_val()).collect())
            }
            fn to_repr(&self) -> Val {
                Val::L(self.iter().map(|x| x.to_repr()).collect())
            }
        }
        impl<K: Model + Ord + Hash, V: Model, S: std::hash::BuildHasher + Default + 'static> Model
            for $map<K, V, S>
        {
            fn describe() -> String {
                format!("(seq hashmap (prod tuple {} {}))", K::describe(), V::describe())
            }
            fn from_val(v: &Val) -> Option<Self> {
                from_list(v).map(|l: Vec<(K, V)>| l.into_iter().collect())
            }
            fn to_val(&self) -> Val {
                let mut l: Vec<(&K, &V)> = self.iter().collect();
                l.sort_by(|a, b| a.0.cmp(b.0));
                Val::L(l.into_iter().map(|(k, v)| Val::L(vec![k.to_val(), v.to_val()])).collect())
            }
            fn to_repr(&self) -> Val {
                Val::L(self.iter().map(|(k, v)| Val::L(vec![k.to_repr(), v.to_repr()])).collect())
            }
        }
    };
}
#[cfg(feature = "cfg_std")]
mod hash_std {
    use super::*;
    use std::collections::{HashMap, HashSet};
    impl_hash_collections!(HashSet, HashMap);
}
#[cfg(feature = "cfg_nostd")]
mod hash_nostd {
    use super::*;
    use hashbrown::{HashMap, HashSet};
    impl_hash_collections!(HashSet, HashMap);
}

#[cfg(feature = "cfg_std")]
mod index {
    use super::*;
    use indexmap::{IndexMap, IndexSet};
    impl<T: Model + Eq + Hash> Model for IndexSet<T> {
        fn describe() -> String {
            format!("(seq indexset {})", T::describe())
        }
        fn from_val(v: &Val) -> Option<Self> {
            from_list(v).map(|l: Vec<T>| l.into_iter().collect())
        }
        fn to_val(&self) -> Val {
            Val::L(self.iter().map(|x| x.to_val()).collect())
        }
    }
    impl<K: Model + Eq + Hash, V: Model> Model for IndexMap<K, V> {
        fn describe() -> String {
            format!("(seq indexmap (prod tuple {} {}))", K::describe(), V::describe())
        }
        fn from_val(v: &Val) -> Option<Self> {
            from_list(v).map(|l: Vec<(K, V)>| l.into_iter().collect())
        }
        fn to_val(&self) -> Val {
            Val::L(self.iter().map(|(k, v)| Val::L(vec![k.to_val(), v.to_val()])).collect())
        }
        fn to_repr(&self) -> Val {
            Val::L(self.iter().map(|(k, v)| Val::L(vec![k.to_repr(), v.to_repr()])).collect())
        }
    }
}

// ---------------------------------------------------------------- arrays
impl<T: Model, const N: usize> Model for [T; N] {
    fn describe() -> String {
        format!("(array {} {})", N, T::describe())
    }
    fn from_val(v: &Val) -> Option<Self> {
        let l: Vec<T> = from_list(v)?;
        l.try_into().ok()
    }
    fn to_val(&self) -> Val {
        Val::L(self.iter().map(|x| x.to_val()).collect())
    }
    fn to_repr(&self) -> Val {
        Val::L(self.iter().map(|x| x.to_repr()).collect())
    }
}

// ---------------------------------------------------------------- tuples
macro_rules! impl_tuple {
    ($($idx:tt $name:ident)+) => {
        impl<$($name: Model),+> Model for ($($name,)+) {
            fn describe() -> String {
                let parts: Vec<String> = vec![$($name::describe()),+];
                format!("(prod tuple {})", parts.join(" "))
            }
            fn from_val(v: &Val) -> Option<Self> {
                let l = list(v)?;
                let n = [$($idx),+].len();
                if l.len() != n { return None; }
                Some(($($name::from_val(&l[$idx])?,)+))
            }
            fn to_val(&self) -> Val {
                Val::L(vec![$(self.$idx.to_val()),+])
            }
            fn to_repr(&self) -> Val {
                Val::L(vec![$(self.$idx.to_repr()),+])
            }
        }
    };
}
impl_tuple!(0 T0);
impl_tuple!(0 T0 1 T1);
impl_tuple!(0 T0 1 T1 2 T2);
impl_tuple!(0 T0 1 T1 2 T2 3 T3);
impl_tuple!(0 T0 1 T1 2 T2 3 T3 4 T4);
impl_tuple!(0 T0 1 T1 2 T2 3 T3 4 T4 5 T5);
impl_tuple!(0 T0 1 T1 2 T2 3 T3 4 T4 5 T5 6 T6);
impl_tuple!(0 T0 1 T1 2 T2 3 T3 4 T4 5 T5 6 T6 7 T7);
impl_tuple!(0 T0 1 T1 2 T2 3 T3 4 T4 5 T5 6 T6 7 T7 8 T8);
impl_tuple!(0 T0 1 T1 2 T2 3 T3 4 T4 5 T5 6 T6 7 T7 8 T8 9 T9);
impl_tuple!(0 T0 1 T1 2 T2 3 T3 4 T4 5 T5 6 T6 7 T7 8 T8 9 T9 10 T10);
impl_tuple!(0 T0 1 T1 2 T2 3 T3 4 T4 5 T5 6 T6 7 T7 8 T8 9 T9 10 T10 11 T11);
impl_tuple!(0 T0 1 T1 2 T2 3 T3 4 T4 5 T5 6 T6 7 T7 8 T8 9 T9 10 T10 11 T11 12 T12);
impl_tuple!(0 T0 1 T1 2 T2 3 T3 4 T4 5 T5 6 T6 7 T7 8 T8 9 T9 10 T10 11 T11 12 T12 13 T13);
impl_tuple!(0 T0 1 T1 2 T2 3 T3 4 T4 5 T5 6 T6 7 T7 8 T8 9 T9 10 T10 11 T11 12 T12 13 T13 14 T14);
impl_tuple!(0 T0 1 T1 2 T2 3 T3 4 T4 5 T5 6 T6 7 T7 8 T8 9 T9 10 T10 11 T11 12 T12 13 T13 14 T14 15 T15);
impl_tuple!(0 T0 1 T1 2 T2 3 T3 4 T4 5 T5 6 T6 7 T7 8 T8 9 T9 10 T10 11 T11 12 T12 13 T13 14 T14 15 T15 16 T16);
impl_tuple!(0 T0 1 T1 2 T2 3 T3 4 T4 5 T5 6 T6 7 T7 8 T8 9 T9 10 T10 11 T11 12 T12 13 T13 14 T14 15 T15 16 T16 17 T17);
impl_tuple!(0 T0 1 T1 2 T2 3 T3 4 T4 5 T5 6 T6 7 T7 8 T8 9 T9 10 T10 11 T11 12 T12 13 T13 14 T14 15 T15 16 T16 17 T17 18 T18);
impl_tuple!(0 T0 1 T1 2 T2 3 T3 4 T4 5 T5 6 T6 7 T7 8 T8 9 T9 10 T10 11 T11 12 T12 13 T13 14 T14 15 T15 16 T16 17 T17 18 T18 19 T19);

// ---------------------------------------------------------------- ranges
macro_rules! impl_range2 {
    ($t:ident, $name:expr, $mk:expr, $s:expr, $e:expr) => {
        impl<T: Model + Clone> Model for core::ops::$t<T> {
            fn describe() -> String {
                format!("(prod (range {}) {} {})", $name, T::describe(), T::describe())
            }
            fn from_val(v: &Val) -> Option<Self> {
                let l = list(v)?;
                if l.len() != 2 {
                    return None;
                }
                let mk: fn(T, T) -> Self = $mk;
                Some(mk(T::from_val(&l[0])?, T::from_val(&l[1])?))
            }
            fn to_val(&self) -> Val {
                let s: fn(&Self) -> &T = $s;
                let e: fn(&Self) -> &T = $e;
                Val::L(vec![s(self).to_val(), e(self).to_val()])
            }
            fn to_repr(&self) -> Val {
                let s: fn(&Self) -> &T = $s;
                let e: fn(&Self) -> &T = $e;
                Val::L(vec![s(self).to_repr(), e(self).to_repr()])
            }
        }
    };
}
impl_range2!(Range, "range", |a, b| a..b, |r| &r.start, |r| &r.end);
impl_range2!(RangeInclusive, "inclusive", |a, b| a..=b, |r| r.start(), |r| r.end());
macro_rules! impl_range1 {
    ($t:ident, $name:expr, $mk:expr, $f:ident) => {
        impl<T: Model> Model for core::ops::$t<T> {
            fn describe() -> String {
                format!("(prod (range {}) {})", $name, T::describe())
            }
            fn from_val(v: &Val) -> Option<Self> {
                let l = list(v)?;
                if l.len() != 1 {
                    return None;
                }
                let mk: fn(T) -> Self = $mk;
                Some(mk(T::from_val(&l[0])?))
            }
            fn to_val(&self) -> Val {
                Val::L(vec![self.$f.to_val()])
            }
            fn to_repr(&self) -> Val {
                Val::L(vec![self.$f.to_repr()])
            }
        }
    };
}
impl_range1!(RangeFrom, "from", |a| a.., start);
impl_range1!(RangeTo, "to", |a| ..a, end);
impl_range1!(RangeToInclusive, "toinclusive", |a| ..=a, end);

// ---------------------------------------------------------------- Option / Result
impl<T: Model> Model for Option<T> {
    fn describe() -> String {
        format!("(sum option (prod (variant () ())) {})", T::describe())
    }
    fn from_val(v: &Val) -> Option<Self> {
        match v {
            Val::V(0, x) if **x == Val::L(vec![]) => Some(None),
            Val::V(1, x) => T::from_val(x).map(Some),
            _ => None,
        }
    }
    fn to_val(&self) -> Val {
        match self {
            None => Val::V(0, Box::new(Val::L(vec![]))),
            Some(x) => Val::V(1, Box::new(x.to_val())),
        }
    }
    fn to_repr(&self) -> Val {
        match self {
            None => Val::V(0, Box::new(Val::L(vec![]))),
            Some(x) => Val::V(1, Box::new(x.to_repr())),
        }
    }
}
impl<T: Model, E: Model> Model for Result<T, E> {
    fn describe() -> String {
        format!("(sum result {} {})", T::describe(), E::describe())
    }
    fn from_val(v: &Val) -> Option<Self> {
        match v {
            Val::V(0, x) => T::from_val(x).map(Ok),
            Val::V(1, x) => E::from_val(x).map(Err),
            _ => None,
        }
    }
    fn to_val(&self) -> Val {
        match self {
            Ok(x) => Val::V(0, Box::new(x.to_val())),
            Err(x) => Val::V(1, Box::new(x.to_val())),
        }
    }
    fn to_repr(&self) -> Val {
        match self {
            Ok(x) => Val::V(0, Box::new(x.to_repr())),
            Err(x) => Val::V(1, Box::new(x.to_repr())),
        }
    }
}

// ---------------------------------------------------------------- std-only and feature-gated leaf types
#[cfg(feature = "cfg_std")]
mod std_only {
    use super::*;
    use std::net::{IpAddr, Ipv4Addr, Ipv6Addr, SocketAddr, SocketAddrV4, SocketAddrV6};

    impl Model for Ipv4Addr {
        fn describe() -> String {
            "(raw ipv4)".into()
        }
        fn from_val(v: &Val) -> Option<Self> {
            let b: [u8; 4] = val_bytes(v)?.try_into().ok()?;
            Some(Ipv4Addr::from(b))
        }
        fn to_val(&self) -> Val {
            bytes_val(&self.octets())
        }
    }
    impl Model for Ipv6Addr {
        fn describe() -> String {
            "(raw ipv6)".into()
        }
        fn from_val(v: &Val) -> Option<Self> {
            let b: [u8; 16] = val_bytes(v)?.try_into().ok()?;
            Some(Ipv6Addr::from(b))
        }
        fn to_val(&self) -> Val {
            bytes_val(&self.octets())
        }
    }
    impl Model for IpAddr {
        fn describe() -> String {
            "(sum ipaddr (raw ipv4) (raw ipv6))".into()
        }
        fn from_val(v: &Val) -> Option<Self> {
            match v {
                Val::V(0, x) => Ipv4Addr::from_val(x).map(IpAddr::V4),
                Val::V(1, x) => Ipv6Addr::from_val(x).map(IpAddr::V6),
                _ => None,
            }
        }
        fn to_val(&self) -> Val {
            match self {
                IpAddr::V4(x) => Val::V(0, Box::new(x.to_val())),
                IpAddr::V6(x) => Val::V(1, Box::new(x.to_val())),
            }
        }
    }
    impl Model for SocketAddrV4 {
        fn describe() -> String {
            "(prod sockv4 (raw ipv4) (prim u16))".into()
        }
        fn from_val(v: &Val) -> Option<Self> {
            let l = list(v)?;
            if l.len() != 2 {
                return None;
            }
            Some(SocketAddrV4::new(Ipv4Addr::from_val(&l[0])?, u16::from_val(&l[1])?))
        }
        fn to_val(&self) -> Val {
            Val::L(vec![self.ip().to_val(), self.port().to_val()])
        }
    }
    impl Model for SocketAddrV6 {
        fn describe() -> String {
            "(prod sockv6 (raw ipv6) (prim u16))".into()
        }
        /// flowinfo and scope id are not carried by the format; a third and fourth
        /// list element, when present, set them on the value to be serialized.
        fn from_val(v: &Val) -> Option<Self> {
            let l = list(v)?;
            if l.len() != 2 {
                return None;
            }
            Some(SocketAddrV6::new(Ipv6Addr::from_val(&l[0])?, u16::from_val(&l[1])?, 7, 9))
        }
        fn to_val(&self) -> Val {
            Val::L(vec![self.ip().to_val(), self.port().to_val()])
        }
    }
    impl Model for SocketAddr {
        fn describe() -> String {
            format!("(sum sockaddr {} {})", SocketAddrV4::describe(), SocketAddrV6::describe())
        }
        fn from_val(v: &Val) -> Option<Self> {
            match v {
                Val::V(0, x) => SocketAddrV4::from_val(x).map(SocketAddr::V4),
                Val::V(1, x) => SocketAddrV6::from_val(x).map(SocketAddr::V6),
                _ => None,
            }
        }
        fn to_val(&self) -> Val {
            match self {
                SocketAddr::V4(x) => Val::V(0, Box::new(x.to_val())),
                SocketAddr::V6(x) => Val::V(1, Box::new(x.to_val())),
            }
        }
    }

    impl Model for bson::oid::ObjectId {
        fn describe() -> String {
            "(raw oid)".into()
        }
        fn from_val(v: &Val) -> Option<Self> {
            let b: [u8; 12] = val_bytes(v)?.try_into().ok()?;
            Some(bson::oid::ObjectId::from_bytes(b))
        }
        fn to_val(&self) -> Val {
            bytes_val(&self.bytes())
        }
    }
    impl Model for bytes::Bytes {
        fn describe() -> String {
            "(text bytes)".into()
        }
        fn from_val(v: &Val) -> Option<Self> {
            val_bytes(v).map(bytes::Bytes::from)
        }
        fn to_val(&self) -> Val {
            bytes_val(self.as_ref())
        }
    }
    impl Model for bytes::BytesMut {
        fn describe() -> String {
            "(text bytesmut)".into()
        }
        fn from_val(v: &Val) -> Option<Self> {
            val_bytes(v).map(|b| bytes::BytesMut::from(&b[..]))
        }
        fn to_val(&self) -> Val {
            bytes_val(self.as_ref())
        }
    }
    impl Model for ascii::AsciiString {
        fn describe() -> String {
            "(text asciistring)".into()
        }
        fn from_val(v: &Val) -> Option<Self> {
            ascii::AsciiString::from_ascii(val_bytes(v)?).ok()
        }
        fn to_val(&self) -> Val {
            bytes_val(self.as_bytes())
        }
    }
    impl Model for &'static ascii::AsciiStr {
        fn describe() -> String {
            "(wrap ref (text asciistr))".into()
        }
        fn from_val(v: &Val) -> Option<Self> {
            let s = ascii::AsciiString::from_ascii(val_bytes(v)?).ok()?;
            Some(&*Box::leak(s.into_boxed_ascii_str()))
        }
        fn to_val(&self) -> Val {
            bytes_val(self.as_bytes())
        }
    }
    impl Model for ascii::AsciiChar {
        fn describe() -> String {
            "(prim asciichar)".into()
        }
        fn from_val(v: &Val) -> Option<Self> {
            ascii::AsciiChar::from_ascii(u8::from_val(v)?).ok()
        }
        fn to_val(&self) -> Val {
            Val::N(self.as_byte() as u128)
        }
    }
}
