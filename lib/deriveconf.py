"""The derive macros in the two dependency configurations the main corpus never builds (used by checks/c06.py):

crate_path_stage   `#[borsh(crate = "..")]` with a path that is NOT `borsh`: a probe crate that has no dependency called
                   `borsh` at all (only `reexporter`, which does `pub use borsh;`); generated items carry
                   `#[borsh(crate = "reexporter::borsh")]`, all three derives.  Positive control: the crate builds and the
                   items encode like the model, round-trip, run their init hook, build and validate their schema.
                   Negative control: the same items WITHOUT the attribute, one module per (item, derive): every derive must
                   fail with proc_macro_crate's `CrateNotFound` -- so the attribute is what makes the positive crate work,
                   and a derive entry point that ignored the parsed path would not compile there.
noschema_stage     the main corpus of C06 built against `borsh = { features = ["derive"] }` (borsh-derive without its
                   `schema` feature, the common user configuration): same encodings as the schema build, round trip."""
import random
import re

from codec import *  # noqa
from derivelib import *  # noqa
from values import gen_val, show

REX = 'reexporter::borsh'
KINDS = {'ser': 'BorshSerialize', 'de': 'BorshDeserialize', 'schema': 'BorshSchema'}
ALL3 = ('BorshSerialize', 'BorshDeserialize', 'BorshSchema')


def rex_fix(text):
    return re.sub(r'\bborsh::', 'reexporter::borsh::', text)


def crate_items(seed, extra=8):
    """A sample of the item shapes of the main generator (no references to other items), each carrying
    `#[borsh(crate = "reexporter::borsh")]`; generic items get a `schema(params = "P => P")` override on one field."""
    rng = random.Random(seed * 977 + 11)
    forces = [{'kind': 'struct', 'shape': 'named', 'nfields': 4, 'generic': True, 'init': False},
              {'kind': 'struct', 'shape': 'named', 'nfields': 3, 'generic': False, 'init': True},
              {'kind': 'struct', 'shape': 'tuple', 'nfields': 5, 'generic': True, 'init': True},
              {'kind': 'struct', 'shape': 'unit', 'generic': False, 'init': False},
              {'kind': 'enum', 'nvariants': 3, 'use_disc': True, 'mode': 'all', 'generic': True, 'init': True},
              {'kind': 'enum', 'nvariants': 4, 'use_disc': False, 'mode': 'random', 'generic': False, 'init': False},
              {'kind': 'enum', 'nvariants': 2, 'use_disc': None, 'generic': True, 'init': False},
              {'kind': 'enum', 'nvariants': 9, 'use_disc': True, 'mode': 'random', 'generic': False, 'init': True}]
    items = []
    for i, force in enumerate(forces + [None] * extra):
        it = I.gen_item(rng, 700 + i, [], force)
        it['extra_metas'] = ['(crate (str %s 1))' % REX]
        if it['generic']:
            for f in I.all_item_fields(it):
                if f.get('param') and not f['skip']:
                    f['extra_metas'] = ['(schema 1 none)']
                    f['params_text'] = '%s => %s' % (f['param'][1], f['param'][1])
                    break
        items.append(it)
    return items


def shape_stats(items):
    c = Counter()
    for it in items:
        c['items'] += 1
        c['generic'] += 1 if it['generic'] else 0
        c['init'] += 1 if it['init'] else 0
        c['skip'] += 1 if any(f['skip'] and not f.get('hook') for f in I.all_item_fields(it)) else 0
        c['with_fns'] += 1 if any(f['with'] is not None for f in I.all_item_fields(it)) else 0
        c['schema_params'] += 1 if any(f.get('params_text') for f in I.all_item_fields(it)) else 0
        if it['kind'] == 'enum':
            c['enum'] += 1
            c['enum_use_discriminant_%s' % it['use_disc']] += 1
            c['enum_explicit_discriminants'] += 1 if any(v['discr'] is not None for v in it['variants']) else 0
        else:
            c['struct_' + it['shape']] += 1
    return dict(c)


def crate_path_stage(driver, seed, tier):
    """Returns (stats, disagreements, failures)."""
    disagreements, failures = [], []
    items = crate_items(seed, 8 if tier == 'quick' else 20)
    stats = {'crate_path_items': shape_stats(items), 'evaluations': 0}
    # ---- the model: `crate = "reexporter::borsh"` is a legal value (a string holding a path) for all three derives
    mv = model_verdicts(driver, [('%d_%s' % (i, k), k, it) for i, it in enumerate(items) for k in KINDS])
    for i, it in enumerate(items):
        for k in KINDS:
            m = mv.get('%d_%s' % (i, k), {})
            stats['evaluations'] += 1
            if m.get('verdict') != 'accept' or m.get('viol'):
                disagreements.append({'what': 'model refuses %s with crate = "%s" (%s): %s' % (it['name'], REX, k, str(m)[:200]), 'item': I.item_sexp(it)})
    # ---- negative control: without the attribute no derive can work in a crate that has no dependency called borsh
    mods, meta = [], {}
    for i, it in enumerate(items):
        bare = dict(it)
        bare['extra_metas'] = []
        for k, d in KINDS.items():
            extra = ('Clone',) if k != 'schema' else ()
            name = 'n%d_%s' % (i, k)
            mods.append((name, rex_fix('use std::collections::BTreeMap;\n' + I.rust_item(bare, derives=(d,), extra_derives=extra))))
            meta[name] = (it, k)
    prelude = 'pub mod withfns {\n' + rex_fix(I.C18_WITHFNS) + '\n}'
    d, ranges = cp.module_crate('c06_crate_neg', mods, prelude=prelude, deps=cp.deps_reexport())
    rc, errs, tail = cp.cargo_check(d, 'target-probe')
    seen = {}
    for e in errs:
        text = (e.get('rendered') or e.get('message', '')) + ' '.join(c.get('message', '') for c in e.get('children', []))
        for ln in cp.primary_lines(e):
            for a, b, name in ranges:
                if a <= ln <= b:
                    seen.setdefault(name, []).append(text)
    neg = Counter()
    for name, (it, k) in meta.items():
        stats['evaluations'] += 1
        texts = seen.get(name)
        if not texts:
            neg['compiles'] += 1
            failures.append({'class': 'crate-path-control', 'key': name,
                             'what': 'negative control: derive(%s) on %s WITHOUT #[borsh(crate = ..)] compiles in a crate that has no dependency '
                                     'called borsh (cargo rc %d): the positive run shows nothing about the attribute' % (KINDS[k], it['name'], rc),
                             'source': dict(mods)[name]})
        elif any('proc_macro_crate::crate_name' in t and ('CrateNotFound' in t or 'Could not find `borsh`' in t) for t in texts):
            # proc_macro_crate::Error::CrateNotFound, printed "Could not find `borsh` in `dependencies` or `dev-dependencies` in `..`"
            neg['refused:CrateNotFound'] += 1
        else:
            neg['refused:other'] += 1
            failures.append({'class': 'crate-path-control', 'key': name,
                             'what': 'negative control: derive(%s) on %s without the attribute fails for another reason than CrateNotFound: %s'
                                     % (KINDS[k], it['name'], texts[0][:300]), 'source': dict(mods)[name]})
    stats['crate_path_negative_control'] = dict(neg)
    # ---- positive: the same items WITH the attribute, all three derives, built and run
    live = list(items)
    exe, cfails, log = build_variant(live, 'rex', derives=ALL3)
    for f in cfails:
        f['class'] = 'crate-path-not-honoured'
        f['what'] = 'with #[borsh(crate = "%s")] in a crate without a dependency called borsh: %s' % (REX, f['what'])
        f['rust'] = rex_fix(I.rust_item([x for x in items if x['name'] == f['key']][0], derives=ALL3))
    failures += cfails
    stats['crate_path_items_not_compiling'] = len(cfails)
    if cfails:
        return stats, disagreements, failures
    if exe is None:
        failures.append({'class': 'crate-path-not-honoured', 'key': 'crate',
                         'what': 'items carrying #[borsh(crate = "%s")] do not build in a crate whose only dependency is `reexporter` '
                                 '(pub use borsh;): %s' % (REX, log[-700:]),
                         'item': I.rust_item(items[0], derives=ALL3)})
        return stats, disagreements, failures
    rng = random.Random(seed * 613 + 7)
    cases = []
    for tid, it in enumerate(items):
        vt = I.value_ty(it)
        n = 6 if it['kind'] == 'struct' else max(6, 2 * len(it['variants']))
        for j in range(n):
            v = gen_val(vt, rng, 6)
            if it['kind'] == 'enum' and j < len(it['variants']):
                v = ('v', j, gen_val(vt[2][j], rng, 6))
            cases.append(('x%d_%d' % (tid, j), tid, I.doc_ty(it), show(v)))
    recs = stage_enc('std-loose', exe, driver, cases)
    stats['evaluations'] += len(recs)
    run = Counter()
    lines, meta2 = [], {}
    for r in recs:
        it = items[r['tid']]
        run['enc:' + r['status']] += 1
        if r['status'] == 'run' and not r['agree']:
            disagreements.append({'what': 'crate-path build: enc %s %s: impl %s, model %s' % (r['type'][:160], r['repr'][:160], r['impl'], r['model']),
                                  'item': I.rust_item(it, derives=ALL3)})
        if r['status'] in ('missing', 'bad'):
            disagreements.append({'what': 'crate-path build: no answer for %s %s: %s' % (it['name'], r['gen'][:160], r.get('impl'))})
        lines.append(case_line('r' + r['cid'], 'rt', r['tid'], r['type'], r['gen'], rng.choice(['-', 'aa'])))
        meta2['r' + r['cid']] = ('rt', r['tid'], r['gen'])
        if r['status'] == 'run' and r['impl'].startswith('ok'):
            h = r['impl'].split(' ')[1].replace('-', '') or '-'
            lines.append(case_line('d' + r['cid'], 'decinit', r['tid'], r['type'], h))
            meta2['d' + r['cid']] = ('decinit', r['tid'], h)
            lines.append(case_line('e' + r['cid'], 'entries', r['tid'], r['type'], h))
            meta2['e' + r['cid']] = ('entries', r['tid'], h)
    for tid, it in enumerate(items):
        lines.append(case_line('s%d' % tid, 'schema', tid, sexp(I.doc_ty(it))))
        meta2['s%d' % tid] = ('schema', tid, '')
    res = run_cases(exe, lines)
    stats['evaluations'] += len(lines)
    for oid, (op, tid, arg) in meta2.items():
        it = items[tid]
        r = res.get(oid) or 'missing'
        ok = {'rt': r.startswith('ok same') or r.startswith('skip'),
              # for_type::<T>() built (no panic); validate() legitimately refuses containers like Vec<()> (C14's business)
              'schema': r.startswith('ok ') or r.startswith('invalid ZSTSequence'),
              'entries': r == 'ok',
              'decinit': r.startswith('ok') and r.endswith('init=%s\tskipped=ok' % ('1' if it.get('init') else '-'))}[op]
        if op == 'rt' and r.startswith('skip'):
            run['rt:skip'] += 1          # counted apart; too many of them and the stage says nothing (below)
            continue
        run[op + (':ok' if ok else ':bad')] += 1
        if not ok:
            failures.append({'class': 'crate-path-' + op, 'key': it['name'],
                             'what': 'crate-path build (crate = "%s"): %s of %s on %s: %s' % (REX, op, it['name'], arg[:120], r[:300]),
                             'item': I.rust_item(it, derives=ALL3)})
    if run['rt:skip'] > run['rt:ok']:
        disagreements.append({'what': 'crate-path build: %d of %d round trips were skipped by the harness, so the stage decides too little'
                                      % (run['rt:skip'], run['rt:skip'] + run['rt:ok'])})
    stats['crate_path_run'] = dict(run)
    stats['crate_path_sample'] = [l for l in rex_fix(I.rust_item(items[4], derives=ALL3)).split('\n')[:4]]
    return stats, disagreements, failures


def noschema_stage(items, cases, recs, rng):
    """items / cases / recs: the main corpus of the seed, its (cid, tid, ty, value) cases and the `enc` records of the
    schema build.  Returns (stats, disagreements, failures)."""
    disagreements, failures = [], []
    stats = {'evaluations': 0}
    live = list(items)
    exe, cfails, log = build_variant(live, 'noschema')
    for f in cfails:
        f['class'] = 'noschema-' + f['class']
        f['what'] = 'borsh with features = ["derive"] only: ' + f['what']
    failures += cfails
    if exe is None:
        failures.append({'class': 'noschema-build', 'key': 'crate',
                         'what': 'the corpus does not build against borsh with features = ["derive"] only: ' + log[-700:]})
        return stats, disagreements, failures
    names = {it['name'] for it in live}
    lines = []
    for cid, tid, t, v in cases:
        if items[tid]['name'] not in names:
            continue
        lines.append(case_line('e' + cid, 'enc', tid, sexp(t), v))
        lines.append(case_line('r' + cid, 'rt', tid, sexp(t), v, rng.choice(['-', 'aa'])))
    # the catalogue of the variant crate numbers the items as `live` does
    renum = {it['name']: i for i, it in enumerate(live)}
    lines = ['\t'.join([f[0], f[1], str(renum[items[int(f[2])]['name']])] + f[3:]) for f in (l.split('\t') for l in lines)]
    res = run_cases(exe, lines)
    stats['evaluations'] += len(lines)
    base = {r['cid']: (r['repr'] + '\t' + r['impl']) if r['status'] == 'run' else r.get('impl') for r in recs}
    c = Counter()
    for cid, tid, t, v in cases:
        it = items[tid]
        if it['name'] not in names:
            continue
        a, b = res.get('e' + cid), base.get(cid)
        c['enc:' + ('same' if a == b else 'differs')] += 1
        if a != b:
            failures.append({'class': 'noschema-encoding', 'key': it['name'],
                             'what': '%s encodes %s as %s when borsh is built with features = ["derive"] only, as %s with the schema feature'
                                     % (it['name'], v[:120], str(a)[:160], str(b)[:160]), 'item': I.rust_item(it)})
        r = res.get('r' + cid) or 'missing'
        okr = r.startswith('ok same') or r.startswith('skip')
        c['rt:' + ('ok' if okr else 'bad')] += 1
        if not okr:
            failures.append({'class': 'noschema-roundtrip', 'key': it['name'],
                             'what': 'round trip of %s on %s with features = ["derive"] only: %s' % (it['name'], v[:120], r[:200]),
                             'item': I.rust_item(it)})
    stats['noschema_run'] = dict(c)
    stats['noschema_items'] = len(live)
    return stats, disagreements, failures
