"""Correspondence stages shared by the schema-container properties C09 and C10.
"""
import os
import sys
import time
from collections import Counter

from vlib import *  # noqa
import containers as gen
import schema_oracle as O


def coq_side(pid):
    return coq_property(pid)


def rust_types(exe):
    """[(cid, rust name, container sexp, container dict, serialized length or None)] from the
    harness op sch-types (BorshSchemaContainer::for_type::<T>() for a built-in list of types)."""
    res = run_cases(exe, [case_line('T', 'sch-types', '-', '-')])
    r = res.get('T')
    if r is None or r.startswith('harness-error') or r == 'panic':
        raise CheckBroken('sch-types failed: %r' % (r,))
    out = []
    for i, rec in enumerate(r.split(';;')):
        name, sx, ln = rec.rsplit('|', 2)
        out.append(('T_%d' % i, name, sx, O.parse_container(sx), None if ln == '-' else int(ln)))
    return out


def corpus(seed, tier, exe):
    """[(cid, sexp, dict)], {cid: value length}, {cid: rust name}, composition counts"""
    cs = [(cid, O.container_sexp(c), c) for cid, c in gen.gen_structured(seed, tier)]
    lens, names = {}, {}
    if exe is not None:
        for cid, name, sx, c, ln in rust_types(exe):
            cs.append((cid, sx, c))
            names[cid] = name
            if ln is not None:
                lens[cid] = ln
    comp = Counter(gen.GROUP_NAMES.get(gen.group_of(cid), gen.group_of(cid)) for cid, _, _ in cs)
    return cs, lens, names, dict(comp)


def run_op(exe, op, cs):
    return run_cases(exe, [case_line(cid, op, '-', '-', sx) for cid, sx, _ in cs])


def replay_cmd(cid, op, sx):
    return "printf '%s\\n' | $VERIF_ROOT/.cache/target-std-strict/debug/harness" % case_line(cid, op, '-', '-', sx)


def compare(op, cs, impl, model, what):
    dis = []
    for cid, sx, _ in cs:
        a, b = impl.get(cid), model.get(cid)
        if a is None or b is None or a != b:
            dis.append({'what': '%s %s: impl %s, model %s' % (what, sx, a, b), 'cid': cid, 'container': sx,
                        'impl': a, 'model': b, 'replay_cmd': replay_cmd(cid, op, sx)})
    return dis


def failure(pid, cls, text, cid, sx, op, result, extra=None):
    f = {'class': cls, 'key': sx, 'what': '%s: %s [container %s -> %s]' % (pid, text, sx, result),
         'cid': cid, 'container': sx, 'result': result, 'replay_cmd': replay_cmd(cid, op, sx)}
    if extra:
        f.update(extra)
    return f


def replay(path):
    import json
    d = json.load(open(path))
    print(json.dumps(d.get('failure') or d.get('broken'), indent=1))
    return 0
