"""Correspondence stages shared by the schema-container properties C09 and C10.
"""
import os
import sys
import time
from collections import Counter

from vlib import *  # noqa
import containers as gen
import schema_oracle as O


def coq_side(pid):
    return coq_property(pid)


def rust_types(exe):
    """[(cid, rust name, container sexp, container dict, serialized length or None)] from the
    harness op sch-types (BorshSchemaContainer::for_type::<T>() for a built-in list of types)."""
    res = run_cases(exe, [case_line('T', 'sch-types', '-', '-')])
    r = res.get('T')
    if r is None or r.startswith('harness-error') or r == 'panic':
        raise CheckBroken('sch-types failed: %r' % (r,))
    out = []
    for i, rec in enumerate(r.split(';;')):
        name, sx, ln = rec.rsplit('|', 2)
        out.append(('T_%d' % i, name, sx, O.parse_container(sx), None if ln == '-' else int(ln)))
    return out


def corpus(seed, tier, exe):
    """[(cid, sexp, dict)], {cid: value length}, {cid: rust name}, composition counts"""
    cs = [(cid, O.container_sexp(c), c) for cid, c in gen.gen_structured(seed, tier)]
    lens, names = {}, {}
    if exe is not None:
        for cid, name, sx, c, ln in rust_types(exe):
            cs.append((cid, sx, c))
            names[cid] = name
            if ln is not None:
                lens[cid] = ln
    comp = Counter(gen.GROUP_NAMES.get(gen.group_of(cid), gen.group_of(cid)) for cid, _, _ in cs)
    return cs, lens, names, dict(comp)


def run_op(exe, op, cs):
    return run_cases(exe, [case_line(cid, op, '-', '-', sx) for cid, sx, _ in cs])


def replay_cmd(cid, op, sx):
    return "printf '%s\\n' | $VERIF_ROOT/.cache/target-std-strict/debug/harness" % case_line(cid, op, '-', '-', sx)


def compare(op, cs, impl, model, what):
    dis = []
    for cid, sx, _ in cs:
        a, b = impl.get(cid), model.get(cid)
        if a is None or b is None or a != b:
            dis.append({'what': '%s %s: impl %s, model %s' % (what, sx, a, b), 'cid': cid, 'container': sx,
                        'impl': a, 'model': b, 'replay_cmd': replay_cmd(cid, op, sx)})
    return dis


def failure(pid, cls, text, cid, sx, op, result, extra=None):
    f = {'class': cls, 'key': sx, 'what': '%s: %s [container %s -> %s]' % (pid, text, sx, result),
         'cid': cid, 'container': sx, 'result': result, 'replay_cmd': replay_cmd(cid, op, sx)}
    if extra:
        f.update(extra)
    return f


def replay(path):
    import json
    d = json.load(open(path))
    print(json.dumps(d.get('failure') or d.get('broken'), indent=1))
    return 0


def deep_chain(exe, which, pid, n=200000, stack_mb=8):
    """Run `sch-deep which n` in a child of its own with an ordinary stack limit (the other children run with an
    unlimited stack).  -> (stats entry, [failure])  A dead child is the finding: the traversal recurses once per
    link of a chain of definitions, and such a chain is ~29 bytes per link when decoded from bytes."""
    import resource
    import subprocess

    def lim():
        resource.setrlimit(resource.RLIMIT_STACK, (stack_mb << 20, stack_mb << 20))
        resource.setrlimit(resource.RLIMIT_AS, (MEM_LIMIT, MEM_LIMIT))
    line = case_line('D', 'sch-deep', '-', '-', which, n)
    try:
        p = subprocess.run([exe], input=line + '\n', stdout=subprocess.PIPE, stderr=subprocess.PIPE, text=True, env=ENV, preexec_fn=lim, timeout=600)
        out, rc, err = p.stdout, p.returncode, p.stderr[-300:]
    except subprocess.TimeoutExpired:
        return {'links': n, 'result': None, 'child_exit': 'timeout'}, [{'class': 'deep-chain-died', 'key': 'chain %d' % n,
                'what': '%s: no answer within 600 s for a chain of %d definitions' % (pid, n), 'links': n}]
    res = None
    for l in out.split('\n'):
        if l.startswith('D\t'):
            res = l.split('\t', 1)[1]
    st = {'links': n, 'stack_limit_MiB': stack_mb, 'result': res, 'child_exit': rc}
    want = 'ok' if which == 'validate' else 'ok 1'
    if res is not None:
        if res != want:      # the child answered, and wrongly: not the known finding
            return st, [{'class': 'deep-chain-wrong', 'key': 'chain %d' % n,
                         'what': '%s: %s of a chain of %d Tuple definitions ending in a one-byte primitive gives %s, expected %s'
                                 % (pid, 'validate()' if which == 'validate' else 'max_serialized_size()', n, res, want), 'links': n}]
        return st, []
    # no answer: the known finding F20 only if the child was killed by a signal after rustc's own stack-overflow message
    overflow = rc < 0 and 'overflowed its stack' in err
    return st, [{'class': 'deep-chain-stack-overflow' if overflow else 'deep-chain-died', 'key': 'chain %d' % n,
                 'what': '%s: %s of a chain of %d Tuple definitions (t0 -> t1 -> ... -> a Primitive; about %d bytes when decoded from bytes) kills the '
                         'process under a %d MiB stack (exit %s: %s)' % (pid, 'validate()' if which == 'validate' else 'max_serialized_size()', n, 29 * n, stack_mb, rc,
                                                                         err.replace('\n', ' ').strip()[-160:]),
                 'links': n, 'replay_cmd': "(ulimit -s %d; printf '%s\\n' | %s)" % (stack_mb * 1024, line.replace('\t', '\\t'), exe)}]
