"""Correspondence stages shared by the codec properties (C01-C05, C14, C16)."""
import random
import sys
import time
from collections import Counter

from vlib import *  # noqa
import catalogue as catmod
from tyuniv import *  # noqa
from values import gen_val, show


def tier_params(tier):
    if tier == 'thorough':
        return {'values_per_type': 24, 'size': 10}
    return {'values_per_type': 6, 'size': 6}


def gen_enc_cases(seed, tier, type_filter=None):
    """[(cid, tid, type, value-sexp)] over the whole catalogue."""
    rng = random.Random(seed * 7919 + 11)
    par = tier_params(tier)
    cases = []
    for tid, t in catmod.catalogue_types():
        if type_filter and not type_filter(t):
            continue
        for j in range(par['values_per_type']):
            v = gen_val(t, rng, par['size'])
            cases.append(('e%d_%d' % (tid, j), tid, t, show(v)))
    return cases + gen_big_cases(seed, tier, type_filter)


BIG_TYPES = ['(seq vec (prim u8))', '(text string)', '(seq deque (prim u8))', '(wrap box (seq slice (prim u8)))',
             '(text bytes)', '(prod tuple (text string) (seq vec (prim u8)) (sum option (prod (variant () ())) (prim bool)))',
             '(seq vec (seq vec (prim u8)))']


def gen_big_cases(seed, tier, type_filter=None):
    """Byte vectors longer than the decoder's 1 MiB first chunk (the doubling path)."""
    rng = random.Random(seed * 104729 + 7)
    sizes = [2 ** 20 + 1] if tier == 'quick' else [2 ** 20, 2 ** 20 + 1, 2 ** 21 - 1, 2 ** 21 + 5, 3 * 2 ** 20 + 7, 2 ** 22 + 1]
    cases = []
    for tid, t in catmod.catalogue_types():
        sx = sexp(t)
        if sx not in BIG_TYPES or (type_filter and not type_filter(t)):
            continue
        if tier == 'quick' and sx in BIG_TYPES[3:5]:
            continue
        for j, n in enumerate(sizes if sx in BIG_TYPES[:2] else sizes[:1]):
            blob = '(b %s)' % bytes((i * 7 + j + 0x61) % 0x7f + 1 if i % 4096 else 0x70 for i in range(n)).hex()
            if sx.startswith('(seq deque'):
                v = '(l %s (l))' % blob
            elif sx.startswith('(prod tuple'):
                v = '(l (b 6869) %s (v 1 1))' % blob
            elif sx == '(seq vec (seq vec (prim u8)))':
                v = '(l (b 0102) %s (b 03))' % blob
            else:
                v = blob
            cases.append(('big%d_%d' % (tid, j), tid, t, v))
    return cases


def split_res(r):
    """'ok X Y' / 'err K M' / 'panic ...' -> tuple"""
    return tuple(r.split(' '))


def stage_enc(cfg, exe, driver, cases):
    """Run `enc` on the implementation, then the model on the representation the
    implementation reports.  Returns list of dicts."""
    lines = [case_line(cid, 'enc', tid, sexp(t), v) for cid, tid, t, v in cases]
    impl = run_cases(exe, lines)
    out = []
    dlines = []
    for cid, tid, t, v in cases:
        r = impl.get(cid)
        rec = {'cid': cid, 'tid': tid, 'type': sexp(t), 'gen': v, 'cfg': cfg, 'impl': r}
        if r is None:
            rec['status'] = 'missing'
        elif r.startswith('skip') or '\t' not in r:
            rec['status'] = 'skip' if r.startswith('skip') else 'bad'
        else:
            repr_, res = r.split('\t', 1)
            rec['repr'] = repr_
            rec['impl'] = res
            rec['status'] = 'run'
            dlines.append(case_line(cid, 'enc', tid, sexp(t), repr_))
            dlines.append(case_line(cid + '#ht', 'hasty', tid, sexp(t), repr_))
        out.append(rec)
    model = run_cases(driver, dlines)
    for rec in out:
        if rec['status'] == 'run':
            rec['model'] = model.get(rec['cid'])
            rec['agree'] = rec['model'] == rec['impl']
            # the representation the implementation reports must be a value of the model (`has_ty`, the hypothesis of
            # the codec theorems, asked of the extracted definition): otherwise agreement on it says nothing proved
            rec['has_ty'] = model.get(rec['cid'] + '#ht')
            if rec['has_ty'] != '1':
                rec['agree'] = False
                rec['model'] = '%s [has_ty = %s: the representation is outside the model\'s values]' % (rec['model'], rec['has_ty'])
    return out


def stage_dec(cfg, exe, driver, cases, mode='deserialize'):
    """cases: [(cid, tid, type, hex)].  Compare impl and model decode."""
    strict = '1' if CONFIGS[cfg][1] else '0'
    lines = [case_line(cid, 'dec', tid, sexp(t), mode, h) for cid, tid, t, h in cases]
    dlines = [case_line(cid, 'dec', tid, sexp(t), strict, h) for cid, tid, t, h in cases]
    impl = run_cases(exe, lines)
    model = run_cases(driver, dlines)
    out = []
    for cid, tid, t, h in cases:
        rec = {'cid': cid, 'tid': tid, 'type': sexp(t), 'input': h, 'cfg': cfg, 'mode': mode,
               'impl': impl.get(cid), 'model': model.get(cid)}
        rec['agree'] = rec['impl'] is not None and rec['impl'] == rec['model']
        out.append(rec)
    return out


def error_class(r):
    if r is None:
        return 'missing'
    p = r.split(' ')
    if p[0] == 'err':
        return 'err:' + p[1] + ':' + p[2].split(':')[0]
    return p[0]


ENTRY_POINTS = ['deserialize', 'try_from_slice', 'from_slice', 'deserialize_reader', 'try_from_reader', 'from_reader']


def stage_decm(cfg, exe, driver, cases):
    """cases: [(cid, tid, type, mode, hex)] -- any of the six entry points.
    Returns records with impl (result without the pulled= field), pulled, model, agree."""
    strict = '1' if CONFIGS[cfg][1] else '0'
    lines = [case_line(cid, 'dec', tid, sexp(t), mode, h or '-') for cid, tid, t, mode, h in cases]
    dlines = [case_line(cid, 'decm', tid, sexp(t), mode, strict, h or '-') for cid, tid, t, mode, h in cases]
    impl = run_cases(exe, lines)
    model = run_cases(driver, dlines)
    out = []
    for cid, tid, t, mode, h in cases:
        r = impl.get(cid)
        pulled = None
        if r is not None and '\tpulled=' in r:
            r, p = r.split('\tpulled=')
            pulled = int(p)
        rec = {'cid': cid, 'tid': tid, 'type': sexp(t), 'input': h, 'cfg': cfg, 'mode': mode,
               'impl': r, 'pulled': pulled, 'model': model.get(cid)}
        rec['agree'] = r is not None and r == rec['model']
        out.append(rec)
    return out


def encodings(cfg, exe, driver, seed, tier, type_filter=None):
    """Valid encodings produced by the implementation: [(rec, type, hex)] plus the enc records."""
    tmap = dict(catmod.catalogue_types())
    cases = gen_enc_cases(seed, tier, type_filter)
    recs = stage_enc(cfg, exe, driver, cases)
    good = []
    for r in recs:
        t = tmap[r['tid']]
        if r['status'] == 'run' and r['impl'].startswith('ok') and can_de(t) and not unbounded_on_hostile_input(t):
            good.append((r, t, r['impl'].split(' ')[1].replace('-', '')))
    return recs, good


def truncations(h, rng, cap=24):
    """Proper prefixes of a hex string: all of them when short, else a sample incl. the ends."""
    n = len(h) // 2
    if n == 0:
        return []
    if n <= cap:
        ks = list(range(n))
    else:
        ks = sorted(set([0, 1, 2, 3, 4, 5, n - 1, n - 2, n - 3, n // 2] + [rng.randrange(n) for _ in range(cap - 10)]))
    return [h[:2 * k] for k in ks]


def corruptions(h, rng, cap=16):
    """Single-byte corruptions of a hex string."""
    n = len(h) // 2
    if n == 0:
        return []
    ks = list(range(n)) if n <= cap else sorted(set([0, 1, 2, 3, 4, n - 1] + [rng.randrange(n) for _ in range(cap - 6)]))
    out = []
    for k in ks:
        old = int(h[2 * k:2 * k + 2], 16)
        new = rng.choice([0, 1, 2, 0x7f, 0x80, 0xff, old ^ 1, (old + 1) & 255])
        if new != old:
            out.append(h[:2 * k] + '%02x' % new + h[2 * k + 2:])
    return out
