"""Correspondence stages shared by the codec properties (C01-C05, C14, C16)."""
import random
import sys
import time
from collections import Counter

from vlib import *  # noqa
import catalogue as catmod
from tyuniv import *  # noqa
from values import gen_val, show


def tier_params(tier):
    if tier == 'thorough':
        return {'values_per_type': 24, 'size': 10}
    return {'values_per_type': 6, 'size': 6}


def gen_enc_cases(seed, tier, type_filter=None):
    """[(cid, tid, type, value-sexp)] over the whole catalogue."""
    rng = random.Random(seed * 7919 + 11)
    par = tier_params(tier)
    cases = []
    for tid, t in catmod.catalogue_types():
        if type_filter and not type_filter(t):
            continue
        for j in range(par['values_per_type']):
            v = gen_val(t, rng, par['size'])
            cases.append(('e%d_%d' % (tid, j), tid, t, show(v)))
    return cases


def split_res(r):
    """'ok X Y' / 'err K M' / 'panic ...' -> tuple"""
    return tuple(r.split(' '))


def stage_enc(cfg, exe, driver, cases):
    """Run `enc` on the implementation, then the model on the representation the
    implementation reports.  Returns list of dicts."""
    lines = [case_line(cid, 'enc', tid, sexp(t), v) for cid, tid, t, v in cases]
    impl = run_cases(exe, lines)
    out = []
    dlines = []
    for cid, tid, t, v in cases:
        r = impl.get(cid)
        rec = {'cid': cid, 'tid': tid, 'type': sexp(t), 'gen': v, 'cfg': cfg, 'impl': r}
        if r is None:
            rec['status'] = 'missing'
        elif r.startswith('skip') or '\t' not in r:
            rec['status'] = 'skip' if r.startswith('skip') else 'bad'
        else:
            repr_, res = r.split('\t', 1)
            rec['repr'] = repr_
            rec['impl'] = res
            rec['status'] = 'run'
            dlines.append(case_line(cid, 'enc', tid, sexp(t), repr_))
        out.append(rec)
    model = run_cases(driver, dlines)
    for rec in out:
        if rec['status'] == 'run':
            rec['model'] = model.get(rec['cid'])
            rec['agree'] = rec['model'] == rec['impl']
    return out


def stage_dec(cfg, exe, driver, cases, mode='deserialize'):
    """cases: [(cid, tid, type, hex)].  Compare impl and model decode."""
    strict = '1' if CONFIGS[cfg][1] else '0'
    lines = [case_line(cid, 'dec', tid, sexp(t), mode, h) for cid, tid, t, h in cases]
    dlines = [case_line(cid, 'dec', tid, sexp(t), strict, h) for cid, tid, t, h in cases]
    impl = run_cases(exe, lines)
    model = run_cases(driver, dlines)
    out = []
    for cid, tid, t, h in cases:
        rec = {'cid': cid, 'tid': tid, 'type': sexp(t), 'input': h, 'cfg': cfg, 'mode': mode,
               'impl': impl.get(cid), 'model': model.get(cid)}
        rec['agree'] = rec['impl'] is not None and rec['impl'] == rec['model']
        out.append(rec)
    return out


def error_class(r):
    if r is None:
        return 'missing'
    p = r.split(' ')
    if p[0] == 'err':
        return 'err:' + p[1] + ':' + p[2].split(':')[0]
    return p[0]
