"""Shared pieces of the io checks (C11, C12, C13): schedule generators, the driver wrapper
with a large stack, harness/driver stages for scheduled readers and writers, op sequences."""
import os
import random
import struct
from collections import Counter

from vlib import *  # noqa
import catalogue as catmod
from tyuniv import *  # noqa
from values import gen_val, show

VEC_U8 = ('seq', 'vec', ('prim', 'u8'))
# failure kinds a schedule can inject (harness/src/errs.rs user_kind): 1..5 PermissionDenied ConnectionReset BrokenPipe TimedOut
# InvalidInput, 6..13 NotFound ConnectionRefused ConnectionAborted NotConnected AddrInUse AddrNotAvailable AlreadyExists
# WouldBlock - every ErrorKind that both std::io and the no_std shim have and that the crate gives no meaning of its own
USER_KINDS = tuple(range(1, 14))


def fail_item(k, n):
    """schedule entry for a hard failure of kind k: with the message "user:n", or built from the kind alone (n None)"""
    return 'f%s:%s' % (k, '-' if n is None else n)


def fail_msg(n):
    return 'Simple' if n is None else 'User:%d' % n


def rand_msg(rng):
    return None if rng.random() < 0.25 else rng.randrange(100)


def driver_big():
    """The extracted driver (vlib.run_cases starts every child with an unlimited stack)."""
    return ensure_driver()


def is_shim(cfg):
    return cfg.startswith('nostd')


def tid_of():
    return {t: tid for tid, t in catmod.catalogue_types()}


# ------------------------------------------------------------------ schedules
def compositions(n):
    """All ordered ways of writing n as a sum of positive integers (2^(n-1) of them)."""
    if n == 0:
        yield ()
        return
    for mask in range(1 << (n - 1)):
        parts, run = [], 1
        for i in range(n - 1):
            if mask >> i & 1:
                parts.append(run)
                run = 1
            else:
                run += 1
        parts.append(run)
        yield tuple(parts)


def sched_s(items):
    return ','.join(items) if items else '-'


def rand_parts(rng, total, big=False):
    """Random composition of `total`."""
    parts = []
    left = total
    while left > 0:
        k = rng.choice((1, 1, 2, 3, 5, 8, 64, 4096, 65536, 1 << 20)) if big else rng.choice((1, 1, 1, 2, 2, 3, 4, 7, 16))
        k = min(k, left) if rng.random() < 0.8 else k
        parts.append(k)
        left -= min(k, left)
    return parts


def rand_rsched(rng, total, p_intr=0.25, big=False):
    items = []
    for k in rand_parts(rng, total, big):
        while rng.random() < p_intr:
            items.append('i' if rng.random() < 0.8 else 'fI:%d' % rng.randrange(10))
        items.append('d%d' % k)
    while rng.random() < p_intr:
        items.append('i')
    return items


def rand_wsched(rng, total, p_intr=0.25, big=False):
    return [x if x[0] != 'd' else 'a' + x[1:] for x in rand_rsched(rng, total, p_intr, big)]


# ------------------------------------------------------------------ encodings of catalogue values
def impl_encodings(exe, cfg, seed, per_type, size, need_de=False, extra=None):
    """[(tid, type, gen-value, repr, result)] from the implementation's own `enc` (to_vec)."""
    rng = random.Random(seed * 104729 + 17)
    cases = []
    for tid, t in catmod.catalogue_types():
        if is_shim(cfg) and needs_std(t):
            continue
        if need_de and not can_de(t):
            continue
        for j in range(per_type):
            cases.append(('e%d_%d' % (tid, j), tid, t, show(gen_val(t, rng, size))))
    for k, (t, v) in enumerate(extra or []):
        cases.append(('x%d' % k, tid_of()[t], t, v))
    res = run_cases(exe, [case_line(cid, 'enc', tid, sexp(t), v) for cid, tid, t, v in cases])
    out = []
    for cid, tid, t, v in cases:
        r = res.get(cid)
        if r is None or '\t' not in r:
            if r is None or not r.startswith('skip from_val'):
                # a panic, a dead child, an unreadable answer: the caller builds its cases from this list, so a value that
                # kills `to_vec` must not just disappear from it
                LOST_ENCODINGS.append('%s %s -> %s' % (rust(t), str(v)[:80], str(r)[:120]))
            continue
        repr_, rr = r.split('\t', 1)
        out.append((tid, t, v, repr_, rr))
    return out


LOST_ENCODINGS = []      # filled by impl_encodings; callers report it as disagreements


def ok_hex(r):
    p = r.split(' ')
    if p[0] != 'ok':
        return None
    return '' if p[1] == '-' else p[1]


def hx(h):
    return h if h else '-'


def big_vec_hex(seed, n):
    """Encoding of a Vec<u8> with n pseudo-random bytes."""
    rng = random.Random(seed)
    return (struct.pack('<I', n) + rng.randbytes(n)).hex()


def split_res(r):
    """'ok VAL pulled=7' -> ('ok VAL', 7);  'err K M pulled=?' -> ('err K M', None)"""
    if r is None:
        return (None, None)
    if ' pulled=' in r:
        a, b = r.rsplit(' pulled=', 1)
        return (a.rstrip(), None if b == '?' else int(b))
    return (r, None)


def short(s, n=160):
    s = str(s)
    return s if len(s) <= n else s[:n // 2] + '...' + s[-n // 2:] + ' (%d chars)' % len(s)


# ------------------------------------------------------------------ op sequences (C13)
def mask_ops(ops, line):
    """Apply the std contract's 'unspecified' rule to a raw harness transcript: outcomes of reads
    issued after a failed read_exact become '_', the reader's remaining input becomes '?'."""
    outs, _, tail = line.partition(' | ')
    outs = outs.split(';') if outs else []
    poisoned = False
    res = []
    for op, o in zip(ops, outs):
        core = op.lstrip('b')
        is_read = core[0] in 'rx'
        res.append('_' if (poisoned and is_read) else o)
        if core[0] == 'x' and o.startswith('XE:'):
            poisoned = True
    if poisoned:
        tail = tail.rsplit(' rd=', 1)[0] + ' rd=?'
    return ';'.join(res) + ' | ' + tail


def rand_ops(rng, n, input_len, cap):
    ops = []
    for _ in range(n):
        c = rng.random()
        pre = 'b' * rng.choice((0, 0, 0, 1, 1, 2))
        if c < 0.25:
            ops.append(pre + 'r%d' % rng.choice((0, 1, 2, 3, input_len, input_len + 2)))
        elif c < 0.5:
            ops.append(pre + 'x%d' % rng.choice((0, 1, 2, 3, input_len // 2, input_len + 1)))
        else:
            k = rng.choice((0, 1, 2, 3, cap, cap + 1))
            data = bytes(rng.randrange(256) for _ in range(k)).hex()
            ops.append(pre + rng.choice(('ws', 'as', 'wv', 'av')) + ':' + hx(data))
    return ops


def res_class(res):
    if not res:
        return 'missing'
    p = res.split(' ')
    if p[0] == 'err' and len(p) >= 3:
        return 'err:%s:%s' % (p[1].split(':')[0], p[2].split(':')[0])
    return p[0]


def split_ok(r):
    """'ok VAL REST' -> ['ok', VAL, REST] (VAL may contain spaces); errors split on spaces."""
    if r.startswith('ok '):
        body, _, rest = r[3:].rpartition(' ')
        return ['ok', body, rest]
    return r.split(' ')
