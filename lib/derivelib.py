"""Shared by checks/c06.py and checks/c18.py: the model's verdict on items (OCaml driver op
`derive`), building the positive program crate, item statistics."""
import os
import re
import subprocess
import time
from collections import Counter

from vlib import *  # noqa
import cargoprobe as cp
import items as I
from tyuniv import sexp

DH = V + '/derive_harness'
DH_TARGET = CACHE + '/target-derive' + cp.TAG
DH_CARGO = open(DH + '/Cargo.toml').read()


def without_schema_feature(item_sexp):
    """The item as borsh-derive built WITHOUT its `schema` feature reads it: `schema` is not in the field key map
    (attributes/field/mod.rs: `#[cfg(feature = "schema")] m.insert(SCHEMA, f_schema)`), so a `schema(..)` entry is
    one more unknown key.  (The Rust source keeps the `schema(..)` text; only the model's term changes.)"""
    return re.sub(r'\(schema [01] (?:none|\(wf [01] [01]\))\)', '(other schema)', item_sexp)


def model_verdicts(driver, entries, fix=None):
    """entries: [(key, kind, item)] -> {key: dict(verdict, viol, flags, derive, doc)}"""
    fix = fix or (lambda x: x)
    lines = ['\t'.join([str(k), 'derive', '-', '-', kind, fix(I.item_sexp(it))]) for k, kind, it in entries]
    res = run_cases(driver, lines)
    out = {}
    for k, kind, it in entries:
        r = res.get(str(k))
        f = (r or '').split('\t')
        if r is None or len(f) < 5:
            out[k] = {'error': r}
            continue
        flags = dict(x.split(':') for x in f[2].split(','))
        out[k] = {'verdict': f[0], 'viol': [] if f[1] == '-' else f[1].split(','), 'flags': flags,
                  'derive': f[3], 'doc': f[4]}
    return out


def item_line_ranges(src):
    """[(first_line, last_line, item_name)] of the generated items.rs, from the `pub struct/enum ItN` lines
    up to the next item."""
    starts = []
    for n, line in enumerate(src.split('\n'), 1):
        m = re.match(r'^pub (?:struct|enum|union) (It\d+)', line)
        if m:
            starts.append((n - 3, m.group(1)))       # derive/attribute lines precede
    out = []
    for i, (a, name) in enumerate(starts):
        b = starts[i + 1][0] - 1 if i + 1 < len(starts) else 10 ** 9
        out.append((max(1, a), b, name.rstrip('G')))
    return out


def build_positive(items, timeout=1500):
    """Write derive_harness/src/{items,withfns}.rs and build.  Returns (exe or None, compile failures, log).
    Items that do not compile are reported (by name) and removed, then the build is retried once."""
    failures = []
    lock = DH + '/Cargo.lock'
    if not os.path.exists(lock):
        sh(['cp', cp.REPO + '/Cargo.lock', lock])
    if cp.REPO != '/repo':      # mutation trial on a scratch copy: same sources, other dependency path
        d2 = CACHE + '/derive_harness' + cp.TAG
        os.makedirs(d2, exist_ok=True)
        sh('rm -rf %s/src %s/harness_src; cp -r %s/src %s/src; cp %s %s/Cargo.lock' % (d2, d2, DH, d2, lock, d2))
        src_main = open(d2 + '/src/main.rs').read().replace('../../harness/src/', HARNESS + '/src/')
        open(d2 + '/src/main.rs', 'w').write(src_main)
        open(d2 + '/Cargo.toml', 'w').write(DH_CARGO.replace('/repo/borsh', cp.REPO + '/borsh'))
        return _build_positive_in(d2, items, failures, timeout)
    return _build_positive_in(DH, items, failures, timeout)


def build_variant(items, variant, timeout=1500, derives=None):
    """The positive crate in another dependency configuration (own directory and package name, same target directory):
      'noschema': `borsh = { features = ["derive", "rc"] }` -- borsh-derive without its `schema` feature;
      'rex':      NO dependency called borsh: the crate depends on `reexporter` (cargoprobe.reexporter_crate: `pub use borsh;`)
                  only; every `borsh::` path of the harness sources becomes `reexporter::borsh::`, and the items have to
                  carry `#[borsh(crate = "reexporter::borsh")]` (the caller's business) for the derives to work at all.
    Returns (exe or None, compile failures, log)."""
    d = CACHE + '/derive_harness_%s%s' % (variant, cp.TAG)
    os.makedirs(d + '/src/shared', exist_ok=True)
    if variant == 'rex':
        fix = lambda t: re.sub(r'\bborsh::', 'reexporter::borsh::', t)
    else:       # the two helper functions for `schema(with_funcs(..))` name types of the (absent) schema module
        fix = lambda t: '\n'.join(l for l in t.split('\n') if 'borsh::schema::' not in l)
    main = open(DH + '/src/main.rs').read().replace('../../harness/src/', 'shared/')
    cp.write_if_changed(d + '/src/main.rs', fix(main))
    for f in ('errs', 'model', 'ops', 'val'):
        cp.write_if_changed(d + '/src/shared/%s.rs' % f, fix(open(HARNESS + '/src/%s.rs' % f).read()))
    cargo = DH_CARGO.replace('name = "derive_harness"', 'name = "derive_harness_%s"' % variant)
    dep = [l for l in cargo.split('\n') if l.startswith('borsh = ')][0]
    if variant == 'noschema':
        cargo = cargo.replace(dep, 'borsh = { path = "%s/borsh", features = ["derive", "rc"] }' % cp.REPO)
    else:
        cargo = cargo.replace(dep, cp.deps_reexport())
    cp.write_if_changed(d + '/Cargo.toml', cargo)
    if not os.path.exists(d + '/Cargo.lock'):
        sh(['cp', cp.REPO + '/Cargo.lock', d + '/Cargo.lock'])
    return _build_positive_in(d, items, [], timeout, exe='derive_harness_' + variant, fix=fix, derives=derives)


def _build_positive_in(DH, items, failures, timeout, exe='derive_harness', fix=None, derives=None):
    live = list(items)
    fix = fix or (lambda t: t)
    for attempt in range(2):
        src = fix(I.emit_items_rs(live, derives) if derives else I.emit_items_rs(live))
        cp.write_if_changed(DH + '/src/items.rs', src)
        cp.write_if_changed(DH + '/src/withfns.rs', fix(I.WITHFNS_RS))
        cmd = ['timeout', str(timeout), 'cargo', 'build', '--offline', '--message-format=json', '--target-dir', DH_TARGET]
        p = subprocess.run(cmd, cwd=DH, env=ENV, stdout=subprocess.PIPE, stderr=subprocess.PIPE, text=True, timeout=timeout + 60)
        if p.returncode == 0:
            return DH_TARGET + '/debug/' + exe, failures, ''
        import json
        errs = []
        for line in p.stdout.split('\n'):
            if line.startswith('{'):
                try:
                    m = json.loads(line)
                except ValueError:
                    continue
                if m.get('reason') == 'compiler-message' and m['message'].get('level') == 'error':
                    errs.append(m['message'])
        ranges = item_line_ranges(src)
        bad = {}
        for e in errs:
            lines_ = []
            def walk(sp):
                if sp is None:
                    return
                if sp.get('file_name', '').endswith('items.rs'):
                    lines_.append(sp['line_start'])
                if sp.get('expansion'):
                    walk(sp['expansion'].get('span'))
            for sp in e.get('spans', []):
                walk(sp)
            for ln in lines_:
                for a, b, name in ranges:
                    if a <= ln <= b:
                        bad.setdefault(name, []).append((e.get('message', '') + ' ' + ' '.join(c.get('message', '') for c in e.get('children', [])))[:300])
        if not bad:
            return None, failures, (p.stderr[-1500:] + ' '.join(e.get('message', '') for e in errs[:3]))
        for name, msgs in bad.items():
            it = [x for x in live if x['name'] == name]
            failures.append({'class': 'accepted-item-does-not-compile', 'key': name,
                             'what': 'item accepted by the model fails to compile: %s: %s' % (name, msgs[0]),
                             'rust': I.rust_item(it[0]) if it else '', 'messages': msgs[:3]})
        live = [x for x in live if x['name'] not in bad]
        # later items may contain the removed ones: drop dependants too
        removed = set(bad)
        changed = True
        while changed:
            changed = False
            for x in list(live):
                s = sexp(I.doc_ty(x))
                if any(re.search(r'\b%s\b' % r, s) for r in removed if r != x['name']):
                    live.remove(x)
                    removed.add(x['name'])
                    changed = True
        items[:] = live
    return None, failures, 'still failing after removing the failing items'


def item_stats(items):
    c = Counter()
    for it in items:
        c['kind:' + it['kind']] += 1
        if it['kind'] == 'struct':
            c['struct:' + it['shape']] += 1
            c['nfields:%d' % len(it['fields'])] += 1
        else:
            n = len(it['variants'])
            c['nvariants:%s' % (n if n <= 9 else ('10-99' if n < 100 else '100-256'))] += 1
            c['use_discriminant:%s' % it['use_disc']] += 1
            c['explicit_discr'] += sum(1 for v in it['variants'] if v['discr'] is not None)
            c['operator_discr'] += sum(1 for v in it['variants'] if v['discr'] is not None and v['discr'][0] == 'bin')
            c['paren_discr'] += sum(1 for v in it['variants'] if v['discr'] is not None and v['discr'][0] == 'paren')
            for v in it['variants']:
                c['variant:' + v['shape']] += 1
            shapes = [v['shape'] for v in it['variants']]
            if any(a == 'named' and 'unit' in shapes[i + 1:] for i, a in enumerate(shapes)):
                c['unit_after_struct_variant'] += 1
        fs = I.all_item_fields(it)
        c['fields_total'] += len(fs)
        c['fields_skipped'] += sum(1 for f in fs if f['skip'])
        c['fields_with_fns'] += sum(1 for f in fs if f['with'] is not None)
        c['fields_reserved_name'] += sum(1 for f in fs if f['name'] in I.RESERVED)
        c['fields_item_typed'] += sum(1 for f in fs if 'It' in sexp(f['ty']))
        if it.get('init'):
            c['init_hook'] += 1
        if it.get('generic'):
            c['generic'] += 1
    return dict(c)
