"""Independent oracle for the schema-container properties C09 (max_serialized_size) and
C10 (validate).

It does NOT follow the Rust code's stack walk.  Everything is computed bottom-up from the
specification: reachability as a graph closure, zero-sizedness as a least fixed point,
the largest encoded size as a Kleene iteration over derivation heights, and the
unbounded maximum as the plain recursive formula on acyclic, fully defined containers.

Structured container form (also produced by gen/containers.py):
    {'root': str, 'defs': [(name, DEF), ...]}         first occurrence of a name wins
    DEF = ('p', size) | ('s', lw, lo, hi, elem) | ('t', [elem...])
        | ('e', tw, [(discr, vname, decl)...]) | ('sn', [(fname, decl)...])
        | ('su', [decl...]) | ('se',)
"""

U64 = 1 << 64


# ------------------------------------------------------------------ syntax
def hexname(s):
    return 'x' + s.encode('utf-8').hex()


def unhexname(a):
    assert a.startswith('x'), a
    return bytes.fromhex(a[1:]).decode('utf-8')


def def_sexp(d):
    k = d[0]
    if k == 'p':
        return '(p %d)' % d[1]
    if k == 's':
        return '(s %d %d %d %s)' % (d[1], d[2], d[3], hexname(d[4]))
    if k == 't':
        return '(t' + ''.join(' ' + hexname(e) for e in d[1]) + ')'
    if k == 'e':
        return '(e %d' % d[1] + ''.join(' (%d %s %s)' % (x, hexname(n), hexname(dc)) for x, n, dc in d[2]) + ')'
    if k == 'sn':
        return '(sn' + ''.join(' (%s %s)' % (hexname(n), hexname(dc)) for n, dc in d[1]) + ')'
    if k == 'su':
        return '(su' + ''.join(' ' + hexname(e) for e in d[1]) + ')'
    if k == 'se':
        return '(se)'
    raise ValueError(d)


def container_sexp(c):
    return '(c %s' % hexname(c['root']) + ''.join(' (%s %s)' % (hexname(n), def_sexp(d)) for n, d in c['defs']) + ')'


def _parse(s):
    pos = 0
    n = len(s)

    def one():
        nonlocal pos
        while pos < n and s[pos] == ' ':
            pos += 1
        if s[pos] == '(':
            pos += 1
            items = []
            while True:
                while pos < n and s[pos] == ' ':
                    pos += 1
                if s[pos] == ')':
                    pos += 1
                    return items
                items.append(one())
        st = pos
        while pos < n and s[pos] not in ' ()':
            pos += 1
        return s[st:pos]
    return one()


def parse_container(sexp):
    l = _parse(sexp)
    assert l[0] == 'c'
    defs = []
    for k, d in l[2:]:
        t = d[0]
        if t == 'p':
            dd = ('p', int(d[1]))
        elif t == 's':
            dd = ('s', int(d[1]), int(d[2]), int(d[3]), unhexname(d[4]))
        elif t == 't':
            dd = ('t', [unhexname(x) for x in d[1:]])
        elif t == 'e':
            dd = ('e', int(d[1]), [(int(x), unhexname(vn), unhexname(dc)) for x, vn, dc in d[2:]])
        elif t == 'sn':
            dd = ('sn', [(unhexname(fn), unhexname(dc)) for fn, dc in d[1:]])
        elif t == 'su':
            dd = ('su', [unhexname(x) for x in d[1:]])
        elif t == 'se':
            dd = ('se',)
        else:
            raise ValueError(sexp)
        defs.append((unhexname(k), dd))
    return {'root': unhexname(l[1]), 'defs': defs}


# ------------------------------------------------------------------ graph notions
def defs_map(c):
    m = {}
    for k, d in c['defs']:
        if k not in m:
            m[k] = d
    return m


def members(d):
    k = d[0]
    if k == 'p' or k == 'se':
        return []
    if k == 's':
        return [d[4]]
    if k == 't' or k == 'su':
        return list(d[1])
    if k == 'e':
        return [v[2] for v in d[2]]
    if k == 'sn':
        return [f[1] for f in d[1]]
    raise ValueError(d)


def reach(c, m=None):
    """Names reachable from the root through members of DEFINED declarations (root included,
    undefined names included as leaves)."""
    m = defs_map(c) if m is None else m
    seen = {c['root']}
    todo = [c['root']]
    while todo:
        x = todo.pop()
        d = m.get(x)
        if d is None:
            continue
        for y in members(d):
            if y not in seen:
                seen.add(y)
                todo.append(y)
    return seen


def zero_sized(c, m=None):
    """Least fixed point of the zero-size rules over all defined declarations."""
    m = defs_map(c) if m is None else m
    z = set()
    changed = True
    while changed:
        changed = False
        for k, d in m.items():
            if k in z:
                continue
            t = d[0]
            if t == 'p':
                ok = d[1] == 0
            elif t == 's':
                ok = d[1] == 0 and ((d[2] == 0 and d[3] == 0) or d[4] in z)
            elif t == 'e':
                ok = d[1] == 0 and all(v[2] in z for v in d[2])
            else:
                ok = all(x in z for x in members(d))
            if ok:
                z.add(k)
                changed = True
    return z


def sem_zero_sized(c, m=None):
    """GREATEST fixed point of the zero-size rules: the defined declarations ALL of whose (finite) values encode to
    no bytes.  It differs from `zero_sized` (the least fixed point, which is what the code computes: a declaration met
    again on the recursion stack counts as "not zero-sized") only through cycles: X = Enum{tag_width 0, [A -> unit,
    B -> X]} has values A, B(A), B(B(A)), ... and every one of them is empty."""
    m = defs_map(c) if m is None else m
    z = set(m)
    changed = True
    while changed:
        changed = False
        for k in list(z):
            d = m[k]
            t = d[0]
            if t == 'p':
                ok = d[1] == 0
            elif t == 's':
                ok = d[1] == 0 and ((d[2] == 0 and d[3] == 0) or d[4] in z)
            elif t == 'e':
                ok = d[1] == 0 and all(v[2] in z for v in d[2])
            else:
                ok = all(x in z for x in members(d))
            if not ok:
                z.discard(k)
                changed = True
    return z


def inhabited(c, m=None):
    """Least fixed point: the defined declarations that have at least one (finite) value."""
    m = defs_map(c) if m is None else m
    h = set()
    changed = True
    while changed:
        changed = False
        for k, d in m.items():
            if k in h:
                continue
            t = d[0]
            if t in ('p', 'se'):
                ok = True
            elif t == 's':
                ok = d[2] <= d[3] and (d[2] == 0 or d[4] in h)
            elif t == 'e':
                ok = any(v[2] in h for v in d[2])
            else:
                ok = all(x in h for x in members(d))
            if ok:
                h.add(k)
                changed = True
    return h


def cyclic_zero_sequences(c, m=None, r=None):
    """Reachable dynamically sized sequences whose elements have values, all of them empty, although the least
    fixed point (the code's notion) does not call the element zero-sized."""
    m = defs_map(c) if m is None else m
    r = reach(c, m) if r is None else r
    lfp, gfp, inh = zero_sized(c, m), sem_zero_sized(c, m), inhabited(c, m)
    out = []
    for x in sorted(r):
        d = m.get(x)
        if d is not None and d[0] == 's' and not is_array(d) and d[2] <= d[3] and d[4] in gfp and d[4] in inh and d[4] not in lfp:
            out.append(x)
    return out


def on_cycle(c, m=None, r=None):
    """Reachable declarations that lie on a cycle of the member graph."""
    m = defs_map(c) if m is None else m
    r = reach(c, m) if r is None else r
    out = set()
    for x in r:
        if x not in m:
            continue
        seen = set()
        todo = list(members(m[x]))
        while todo:
            y = todo.pop()
            if y == x:
                out.add(x)
                break
            if y in seen or y not in m:
                continue
            seen.add(y)
            todo.extend(members(m[y]))
    return out


def is_array(d):
    return d[0] == 's' and d[1] == 0 and d[2] == d[3]


def defects(c, m=None, r=None, z=None):
    """All (class, declaration) defects among the reachable declarations."""
    m = defs_map(c) if m is None else m
    r = reach(c, m) if r is None else r
    z = zero_sized(c, m) if z is None else z
    out = set()
    for x in r:
        d = m.get(x)
        if d is None:
            out.add(('MissingDefinition', x))
            continue
        if d[0] == 's' and not is_array(d):
            _, lw, lo, hi, el = d
            if hi < lo:
                out.add(('EmptyLengthRange', x))
            if lw in (3, 5, 6, 7):
                out.add(('TagNotPowerOfTwo', x))
            if lw in (1, 2, 4) and hi >= (1 << (8 * lw)):
                out.add(('TagTooNarrow', x))
            if lw > 8:
                out.add(('TagTooWide', x))
            if el in z:
                out.add(('ZSTSequence', x))
        if d[0] == 'e' and d[1] > 8:
            out.add(('TagTooWide', x))
    return out


def well_formed(c):
    return not defects(c)


def max_heights(c, K, m=None):
    """best[k][d] for k = 0..K: the largest encoded size among the values of d whose derivation
    has height <= k (None when there is no such value)."""
    m = defs_map(c) if m is None else m
    prev = {k: None for k in m}
    out = [prev]
    for _ in range(K):
        cur = {}
        for k, d in m.items():
            t = d[0]
            if t == 'p':
                v = d[1]
            elif t == 's':
                _, lw, lo, hi, el = d
                if lo > hi:
                    v = None
                elif hi == 0:
                    v = lw
                else:
                    b = prev.get(el)
                    if b is None:
                        v = lw if lo == 0 else None
                    else:
                        v = lw + hi * b
            elif t == 'e':
                bs = [prev.get(x[2]) for x in d[2]]
                bs = [b for b in bs if b is not None]
                v = d[1] + max(bs) if bs else None
            else:
                v = 0
                for x in members(d):
                    b = prev.get(x)
                    if b is None:
                        v = None
                        break
                    v += b
            cur[k] = v
        out.append(cur)
        prev = cur
    return out


def unbounded(c, m=None):
    """The plain formula over unbounded integers.  Only call on containers without reachable
    missing names and without reachable cycles."""
    m = defs_map(c) if m is None else m
    memo = {}

    def val(x):
        if x in memo:
            return memo[x]
        d = m[x]
        t = d[0]
        if t == 'p':
            v = d[1]
        elif t == 's':
            v = d[1] if d[3] == 0 else d[3] * val(d[4]) + d[1]
        elif t == 'e':
            v = max([val(y[2]) for y in d[2]] or [0]) + d[1]
        else:
            v = sum(val(y) for y in members(d))
        memo[x] = v
        return v
    return val(c['root'])


# ------------------------------------------------------------------ results
def parse_result(r):
    """'ok 12' -> ('ok', 12); 'ok' -> ('ok', None); 'err Overflow' -> ('err', 'Overflow', None);
    'err MissingDefinition x41' -> ('err', 'MissingDefinition', 'A'); 'panic'/'fuel' -> (r,)"""
    if r is None:
        return ('missing',)
    p = r.split(' ')
    if p[0] == 'ok':
        return ('ok', int(p[1]) if len(p) > 1 else None)
    if p[0] == 'err':
        return ('err', p[1], unhexname(p[2]) if len(p) > 2 else None)
    return (p[0],)


def result_class(r):
    if r is None:
        return 'missing'
    p = r.split(' ')
    if p[0] == 'err':
        return 'err ' + p[1]
    return p[0]


# ------------------------------------------------------------------ C09
def check_c09(c, result, bound=U64, value_len=None, complete=True):
    """Violations (list of (class, text)) of the max_serialized_size property for one container and
    one implementation result string."""
    out = []
    res = parse_result(result)
    if res[0] not in ('ok', 'err'):
        return [('panic' if res[0] == 'panic' else 'no-result', 'max_serialized_size gave %r' % (result,))]
    m = defs_map(c)
    r = reach(c, m)
    missing = sorted(x for x in r if x not in m)
    cyc = on_cycle(c, m, r)
    K = len(m) + 2
    if res[0] == 'ok':
        mx = res[1]
        best = max_heights(c, K, m)
        root = c['root']
        for k in range(1, K + 1):
            b = best[k].get(root)
            if b is not None and b > mx:
                out.append(('unsound', 'a described value of derivation height <= %d encodes to %d bytes > reported maximum %d' % (k, b, mx)))
                break
        if all(x in m and best[K][x] is not None for x in r):
            if best[K][root] != mx:
                out.append(('not-attained', 'every reachable declaration is defined and inhabited, the largest value has %s bytes, reported maximum %d' % (best[K][root], mx)))
        if value_len is not None and value_len > mx:
            out.append(('unsound-value', 'a real value serializes to %d bytes > reported maximum %d' % (value_len, mx)))
    else:
        _, kind, d = res
        if kind == 'MissingDefinition':
            if not (d in r and d not in m):
                out.append(('bad-missing', 'MissingDefinition names %r which is %s' % (d, 'defined' if d in m else 'unreachable')))
        elif kind == 'Recursive':
            if not cyc:
                out.append(('bad-recursive', 'Recursive reported but no reachable declaration lies on a cycle'))
            elif not missing and cyc <= sem_zero_sized(c, m):
                # finding F25: the cycle only runs through declarations all of whose values are empty, so the true maximum is
                # not unbounded because of it (height-bounded maxima are stationary)
                K2 = 2 * K
                best = max_heights(c, K2, m)
                if best[K][c['root']] is not None and best[K][c['root']] == best[K2][c['root']]:
                    out.append(('cyclic-zero-size', 'Recursive reported although every declaration on a reachable cycle (%s) has only empty values: '
                                                    'the largest value of the root has %d bytes at every height' % (sorted(cyc)[0], best[K][c['root']])))
        elif kind == 'Overflow':
            if not missing and not cyc:
                v = unbounded(c, m)
                if v < bound:
                    out.append(('bad-overflow', 'Overflow reported but the unbounded maximum is %d < %d' % (v, bound)))
        else:
            out.append(('bad-error', 'unknown error %r' % (result,)))
    if complete and not missing and not cyc:
        v = unbounded(c, m)
        want = 'ok %d' % v if v < bound else 'err Overflow'
        if result != want:
            out.append(('incomplete', 'acyclic, fully defined container: expected %s, got %s' % (want, result)))
    return out


# ------------------------------------------------------------------ C10
DEFECT_CLASSES = ['MissingDefinition', 'EmptyLengthRange', 'TagNotPowerOfTwo', 'TagTooNarrow', 'TagTooWide', 'ZSTSequence']


def check_c10(c, result, dfs=None):
    out = []
    res = parse_result(result)
    if res[0] not in ('ok', 'err'):
        return [('panic' if res[0] == 'panic' else 'no-result', 'validate gave %r' % (result,))]
    dfs = defects(c) if dfs is None else dfs
    if res[0] == 'ok':
        if dfs:
            out.append(('accepts-ill-formed', 'validate is Ok but the container has defects %s' % sorted(dfs)[:4]))
        else:
            cz = cyclic_zero_sequences(c)
            if cz:        # finding F25: "zero-sized" is decided as a least fixed point, which is wrong through a cycle
                out.append(('cyclic-zero-size', 'validate is Ok but every value of the elements of the dynamically sized sequence %s encodes to no bytes '
                                                '(the elements reach themselves through untagged definitions)' % cz[0]))
    else:
        _, kind, d = res
        if not dfs:
            out.append(('rejects-well-formed', 'validate is %s but the container is well-formed' % result))
        elif kind not in DEFECT_CLASSES:
            out.append(('bad-error', 'unknown error %r' % (result,)))
        elif (kind, d) not in dfs:
            out.append(('bad-blame', '%s blames %r, which does not have that defect (defects present: %s)' % (kind, d, sorted(dfs)[:4])))
    return out
