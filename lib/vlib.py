"""Shared machinery of the checks: building the Coq development, the extracted
driver and the Rust harness from /repo's working tree; running cases through both;
auditing proofs; writing evidence and replays."""
import concurrent.futures as cf
import hashlib
import json
import os
import re
import subprocess
import sys
import time

V = os.environ.get('VERIF_ROOT') or os.path.dirname(os.path.dirname(os.path.abspath(__file__)))
COQ = V + '/coq'
CACHE = V + '/.cache'
HARNESS = V + '/harness'
# The checks decide the properties of /repo's working tree.  VERIF_REPO points them at another checkout
# (a scratch worktree carrying a seeded change) without touching /repo: the harness sources are copied
# next to a Cargo.toml that names that checkout, and every cargo target directory gets a suffix.
REPO = os.environ.get('VERIF_REPO', '/repo').rstrip('/') or '/repo'
TAG = '' if REPO == '/repo' else '-' + hashlib.sha1(REPO.encode()).hexdigest()[:8]
# (scratch runs against a deliberately modified /repo set these so that committed evidence is not overwritten)
REPLAYS = os.environ.get('VERIF_REPLAY_DIR') or V + '/replays'
EVIDENCE = os.environ.get('VERIF_EVIDENCE_DIR') or V + '/evidence'
sys.path.insert(0, V + '/gen')

NPROC = max(2, min(16, os.cpu_count() or 2))
ENV = dict(os.environ, CARGO_NET_OFFLINE='true')

CONFIGS = {
    # name: (cargo features, strict flag for the model)
    'std-strict': ('cfg_std,strict', True),
    'std-loose': ('cfg_std', False),
    'nostd-strict': ('cfg_nostd,strict', True),
    'nostd-loose': ('cfg_nostd', False),
}

FORBIDDEN = re.compile(r'\b(Admitted|admit|Axiom|Axioms|Parameter|Parameters|Conjecture|Hypothesis|Variable)\b|Unset\s+Guard|bypass_check|type-in-type|impredicative-set|Admit\s+Obligations')
ALLOWED_AXIOMS = set()   # no axiom is allowed; extend only with names recorded in DESIGN.md section 8


class CheckBroken(Exception):
    """The machinery itself failed (not a verdict about the property)."""


def sh(cmd, cwd=None, timeout=3600, inp=None, env=None):
    p = subprocess.run(cmd, cwd=cwd, timeout=timeout, input=inp, env=env or ENV, stdout=subprocess.PIPE,
                       stderr=subprocess.STDOUT, text=True, shell=isinstance(cmd, str))
    return p.returncode, p.stdout


# ------------------------------------------------------------------ Coq
def coq_makefile():
    if not os.path.exists(COQ + '/Makefile') or os.path.getmtime(COQ + '/Makefile') < os.path.getmtime(COQ + '/_CoqProject'):
        rc, out = sh('coq_makefile -f _CoqProject -o Makefile', cwd=COQ)
        if rc != 0:
            raise CheckBroken('coq_makefile failed: ' + out)


def coq_build(targets, timeout=2400):
    """Full .vo build of the given targets (and their dependency cone)."""
    coq_makefile()
    rc, out = sh(['timeout', str(timeout), 'make', '-j%d' % NPROC] + targets, cwd=COQ, timeout=timeout + 60)
    return rc, out


def section_variables_ok(text):
    """`Variable`/`Hypothesis`/`Context` are legal only inside a Section."""
    depth = 0
    for line in text.split('\n'):
        s = line.strip()
        if re.match(r'^Section\s+\w+', s):
            depth += 1
        elif re.match(r'^End\s+\w+', s) and depth > 0:
            depth -= 1
        elif re.match(r'^(Variable|Variables|Hypothesis|Hypotheses|Context)\b', s) and depth == 0:
            return False
    return True


def strip_comments(text):
    out = []
    depth = 0
    i = 0
    while i < len(text):
        if text.startswith('(*', i):
            depth += 1
            i += 2
        elif text.startswith('*)', i) and depth > 0:
            depth -= 1
            i += 2
        else:
            if depth == 0:
                out.append(text[i])
            i += 1
    return ''.join(out)


def coq_audit_sources():
    """No Admitted/admit/Axiom/... anywhere in the development."""
    problems = []
    for root, _, files in os.walk(COQ):
        for f in files:
            if not f.endswith('.v'):
                continue
            p = os.path.join(root, f)
            text = strip_comments(open(p).read())
            for m in FORBIDDEN.finditer(text):
                w = m.group(0)
                if w in ('Variable', 'Hypothesis'):
                    continue
                problems.append('%s: %s' % (p, w))
            if not section_variables_ok(text):
                problems.append('%s: Variable/Hypothesis outside a section' % p)
    return problems


def coq_property(pid, timeout=2400):
    """Build the dependency cone of Properties/<pid>.v, re-check the property file itself
    (so that its Print Assumptions output is captured on this run) and audit it.
    Returns a dict: ok, obligations, discharged, theorems, log, problems."""
    t0 = time.time()
    res = {'ok': False, 'obligations': 0, 'discharged': 0, 'theorems': [], 'problems': [], 'log': ''}
    pfile = '%s/Properties/%s.v' % (COQ, pid)
    if not os.path.exists(pfile):
        res['problems'].append('no property file')
        return res
    rc, out = coq_build(['Properties/%s.vo' % pid], timeout)
    res['log'] = out[-4000:]
    if rc != 0:
        res['problems'].append('coq build failed')
        m = re.search(r'File "([^"]+)", line (\d+)', out)
        res['failed_at'] = m.group(0) if m else 'unknown'
        return res
    # re-run the property file alone to capture Print Assumptions
    os.makedirs(CACHE + '/audit', exist_ok=True)
    rc, out = sh(['timeout', '600', 'coqc', '-Q', '.', 'Borsh', '-o', CACHE + '/audit/%s.vo' % pid, 'Properties/%s.v' % pid], cwd=COQ)
    res['log'] = out[-6000:]
    if rc != 0:
        res['problems'].append('property file does not check')
        return res
    text = strip_comments(open(pfile).read())
    thms = re.findall(r'^\s*(?:Theorem|Corollary)\s+(\w+)', text, re.M)
    prints = re.findall(r'Print Assumptions\s+(\w+)\s*\.', text)
    res['theorems'] = thms
    res['obligations'] = len(thms)
    # the property theorems are pinned by name (coq/REQUIRED_THEOREMS.json, committed): a file whose theorems were
    # renamed, turned into Lemmas, moved or deleted must not pass as "0/0 theorems closed"
    try:
        required = json.load(open(COQ + '/REQUIRED_THEOREMS.json')).get(pid)
    except (OSError, ValueError):
        required = None
    if required is None:
        res['problems'].append('no entry for %s in coq/REQUIRED_THEOREMS.json' % pid)
    else:
        gone = [t for t in required if t not in thms]
        if gone:
            res['problems'].append('required theorems missing from Properties/%s.v: %s' % (pid, ', '.join(gone[:6])))
        res['obligations'] = max(len(thms), len(required))
    if not thms:
        res['problems'].append('the property file states no theorem')
    missing = [t for t in thms if t not in prints]
    if missing:
        res['problems'].append('no Print Assumptions for: ' + ', '.join(missing))
    closed = out.count('Closed under the global context')
    axioms = re.findall(r'^Axioms:\n((?:.+\n)+?)(?=\S|\Z)', out, re.M)
    bad_ax = []
    for block in re.findall(r'Axioms:\n((?:[ \t]*\S.*\n?)+)', out):
        for line in block.split('\n'):
            m = re.match(r'^(\S+)\s*:', line)
            if m and m.group(1) not in ALLOWED_AXIOMS:
                bad_ax.append(m.group(1))
    if bad_ax:
        res['problems'].append('axioms used: ' + ', '.join(sorted(set(bad_ax))))
    res['discharged'] = closed if not bad_ax else 0
    if closed < len(prints):
        res['problems'].append('only %d of %d Print Assumptions are closed' % (closed, len(prints)))
    res['problems'] += coq_audit_sources()
    if os.environ.get('VERIF_TIER') == 'thorough' and not res['problems']:
        # independent re-check of the compiled theorem file and everything it depends on
        rc, out = sh(['timeout', '1500', 'coqchk', '-silent', '-o', '-Q', '.', 'Borsh', 'Borsh.Properties.%s' % pid], cwd=COQ, timeout=1600)
        res['coqchk'] = out[-1500:]
        if rc != 0 or 'Axioms: <none>' not in out or 'type-in-type: <none>' not in out \
                or 'unsafe (co)fixpoints: <none>' not in out or 'positivity is assumed: <none>' not in out:
            res['problems'].append('coqchk does not confirm an axiom-free, fully checked development')
    res['ok'] = not res['problems']
    res['wall_s'] = round(time.time() - t0, 1)
    return res


def also_property(coq, pid2):
    """Build and audit a further theorem file (Properties/<pid2>.v) and merge the result into the dict that
    coq_property returned for the main one: the check's proof side holds only if both are closed."""
    r = coq_property(pid2)
    coq['ok'] = bool(coq.get('ok')) and bool(r.get('ok'))
    coq['obligations'] = coq.get('obligations', 0) + r.get('obligations', 0)
    coq['discharged'] = coq.get('discharged', 0) + r.get('discharged', 0)
    coq['theorems'] = list(coq.get('theorems', [])) + list(r.get('theorems', []))
    coq['problems'] = list(coq.get('problems', [])) + ['%s: %s' % (pid2, p) for p in r.get('problems', [])]
    coq['wall_s'] = round((coq.get('wall_s') or 0) + (r.get('wall_s') or 0), 1)
    if r.get('failed_at') and not coq.get('failed_at'):
        coq['failed_at'] = r['failed_at']
    if not r.get('ok'):
        coq['log'] = (coq.get('log', '') + '\n--- %s ---\n' % pid2 + r.get('log', ''))[-6000:]
    if r.get('coqchk'):
        coq['coqchk'] = (coq.get('coqchk', '') + ' | %s: %s' % (pid2, r['coqchk']))
    return coq


# ------------------------------------------------------------------ driver and harness
def ensure_driver():
    rc, out = sh([V + '/bin/build_driver'], timeout=3000)
    if rc != 0:
        raise CheckBroken('driver build failed:\n' + out[-3000:])
    return CACHE + '/ocaml/driver'


def ensure_catalogue():
    import catalogue
    cat = catalogue.emit_rs(HARNESS + '/src/catalogue.rs')
    try:
        import sizes
        sizes.emit_rs(HARNESS + '/src/sizes_gen.rs')
    except ImportError:
        pass
    return cat


# ------------------------------------------------------------------ freshness of Rust artifacts
def repo_stamp():
    """sha1 over the CONTENTS of the crate sources under REPO (cargo decides by mtime; a tree restored with older
    mtimes - rsync -a, cp -p, tar - would otherwise be answered by yesterday's binary)"""
    h = hashlib.sha1()
    roots = [REPO + '/borsh/src', REPO + '/borsh-derive/src']
    files = [REPO + '/Cargo.toml', REPO + '/Cargo.lock', REPO + '/borsh/Cargo.toml', REPO + '/borsh-derive/Cargo.toml', REPO + '/borsh/build.rs']
    for r in roots:
        for d, _, fs in os.walk(r):
            files += [os.path.join(d, f) for f in fs]
    for f in sorted(files):
        try:
            b = open(f, 'rb').read()
        except OSError:
            continue
        h.update(f[len(REPO):].encode() + b'\0' + str(len(b)).encode() + b'\0' + b)
    return h.hexdigest()


def before_cargo(target_dir):
    """Call before building into target_dir: when the crate sources differ in content from what that directory was
    last built from, the fingerprints of borsh / borsh-derive are removed so that cargo rebuilds them whatever the
    mtimes say.  Returns the stamp to hand to after_cargo on success."""
    st = repo_stamp()
    try:
        old = open(target_dir + '/.repo_stamp').read().strip()
    except OSError:
        old = None
    if old != st and os.path.isdir(target_dir):
        import glob
        import shutil
        for fp in glob.glob(target_dir + '/*/.fingerprint/borsh-*') + glob.glob(target_dir + '/*/*/.fingerprint/borsh-*'):
            shutil.rmtree(fp, ignore_errors=True)
        try:
            os.remove(target_dir + '/.repo_stamp')
        except OSError:
            pass
    return st


def refresh_all_targets():
    """Once per check run: every cargo target directory of this REPO under .cache whose stamp differs from the current
    CONTENTS of the crate sources loses its borsh / borsh-derive fingerprints (so the next cargo invocation rebuilds
    them, whatever the mtimes say) and gets the new stamp."""
    import glob
    st = repo_stamp()
    for t in glob.glob(CACHE + '/target-*'):
        base = os.path.basename(t)
        tagged = re.search(r'-[0-9a-f]{8}$', base) is not None
        if (TAG and not base.endswith(TAG)) or (not TAG and tagged):
            continue
        try:
            old = open(t + '/.repo_stamp').read().strip()
        except OSError:
            old = None
        if old != st:
            import shutil
            for fp in glob.glob(t + '/*/.fingerprint/borsh-*') + glob.glob(t + '/*/*/.fingerprint/borsh-*'):
                shutil.rmtree(fp, ignore_errors=True)
            after_cargo(t, st)
    return st


def after_cargo(target_dir, stamp):
    try:
        os.makedirs(target_dir, exist_ok=True)
        open(target_dir + '/.repo_stamp', 'w').write(stamp)
    except OSError:
        pass


def sync_lock(crate_dir):
    """the Cargo.lock of REPO next to a crate built against it (copied again whenever it differs)"""
    try:
        src = open(REPO + '/Cargo.lock', 'rb').read()
    except OSError:
        return
    dst = crate_dir + '/Cargo.lock'
    if not os.path.exists(dst):
        open(dst, 'wb').write(src)


def harness_path(cfg, release=False):
    return '%s/target-%s%s/%s/harness' % (CACHE, cfg, TAG, 'release' if release else 'debug')


def harness_dir():
    """the crate to build: V/harness itself for /repo, else a copy whose Cargo.toml names VERIF_REPO"""
    if not TAG:
        return HARNESS
    d = CACHE + '/harness' + TAG
    os.makedirs(d, exist_ok=True)
    sh(['rsync', '-a', '--delete', '--exclude', 'Cargo.toml', '--exclude', 'Cargo.lock', '--exclude', 'target', '--exclude', '/src/main.rs', HARNESS + '/', d + '/'])
    toml = open(HARNESS + '/Cargo.toml').read().replace('/repo/borsh', REPO + '/borsh')
    if not os.path.exists(d + '/Cargo.toml') or open(d + '/Cargo.toml').read() != toml:
        open(d + '/Cargo.toml', 'w').write(toml)
    main = open(HARNESS + '/src/main.rs').read().replace('"/repo/borsh/', '"' + REPO + '/borsh/')
    if not os.path.exists(d + '/src/main.rs') or open(d + '/src/main.rs').read() != main:
        open(d + '/src/main.rs', 'w').write(main)
    return d


def ensure_harness(cfg, timeout=2400, release=False):
    """Rebuild the harness (and borsh, from /repo's working tree) for one feature configuration.
    Returns (path or None, build log).  release=True: the release profile (no debug assertions, no overflow checks)."""
    ensure_catalogue()
    hd = harness_dir()
    sync_lock(hd)
    feats, _ = CONFIGS[cfg]
    tdir = '%s/target-%s%s' % (CACHE, cfg, TAG)
    stamp = before_cargo(tdir)
    cmd = ['timeout', str(timeout), 'cargo', 'build', '--offline', '--features', feats, '--target-dir', tdir]
    if release:
        cmd.insert(4, '--release')
    rc, out = sh(cmd, cwd=hd, timeout=timeout + 60)
    if rc != 0:
        return None, out
    after_cargo(tdir, stamp)
    return harness_path(cfg, release), out


MEM_LIMIT = 6 * 1024 ** 3      # address-space cap per child: a runaway case must not take the sandbox down


def _limits():
    import resource
    try:
        resource.setrlimit(resource.RLIMIT_STACK, (resource.RLIM_INFINITY, resource.RLIM_INFINITY))
    except (ValueError, OSError):
        pass
    try:
        resource.setrlimit(resource.RLIMIT_AS, (MEM_LIMIT, MEM_LIMIT))
    except (ValueError, OSError):
        pass


def _run_shard(args):
    """-> (stdout, None) or (stdout so far, 'why the child died')"""
    exe, lines = args
    if not lines:
        return '', None
    try:
        p = subprocess.run([exe], input='\n'.join(lines) + '\n', stdout=subprocess.PIPE, stderr=subprocess.PIPE, text=True, env=ENV,
                           preexec_fn=_limits, timeout=1500)
    except subprocess.TimeoutExpired as e:
        out = e.stdout.decode() if isinstance(e.stdout, bytes) else (e.stdout or '')
        return out, 'timeout after 1500 s'
    if p.returncode != 0:
        return p.stdout, 'rc=%d %s' % (p.returncode, p.stderr[-300:].replace('\n', ' ').replace('\t', ' '))
    return p.stdout, None


def _parse_answers(out, res):
    for l in out.split('\n'):
        if not l:
            continue
        i, _, r = l.partition('\t')
        res[i] = r


SKIPS = {}      # (executable's last path parts, op) -> [answers, {skip reason: count}]
# skips that say "this case has nothing to observe by construction" (an enum with payloads has no `as isize`
# discriminant; an item generated without the schema derive; an array length the harness has no instance for)
DESIGNED_SKIPS = ('no-discr', 'no-schema-derive', 'unsupported-length', 'unsupported-shape')
SKIP_FLOOR = (40, 0.25)     # an op with at least 40 answers of which more than a quarter are other skips decides too little


def _count_skips(exe, lines, res):
    tag = '/'.join(str(exe).split('/')[-3:])
    for l in lines:
        f = l.split('\t', 2)
        c = SKIPS.setdefault((tag, f[1] if len(f) > 1 else '?'), [0, {}])
        c[0] += 1
        r = res.get(f[0]) or ''
        if r.startswith('skip'):
            why = (r.split(' ', 2) + ['?'])[1].split('\t')[0]
            c[1][why] = c[1].get(why, 0) + 1


def skip_report():
    """({op@exe: {answers, skipped: {reason: n}}} for every op some answer of which was a skip, [ops over the floor])"""
    rep, over = {}, []
    for (tag, op), (n, why) in sorted(SKIPS.items()):
        if not why:
            continue
        rep['%s@%s' % (op, tag)] = {'answers': n, 'skipped': dict(why)}
        other = sum(k for r, k in why.items() if r not in DESIGNED_SKIPS)
        if n >= SKIP_FLOOR[0] and other > SKIP_FLOOR[1] * n:
            over.append('%s@%s: %d of %d answers were skips (%s)' % (op, tag, other, n, why))
    return rep, over


def run_cases(exe, lines, shards=NPROC):
    """lines: list of TAB-separated case lines (first field = case id).  Returns {id: result-string}.
    EVERY id gets an answer: when a child process dies (or times out) its unanswered lines are run again one per
    child, and a line that kills its own child is answered `child-died <why>` - a string no model produces, so it
    surfaces as a disagreement / failure wherever the answer is compared, instead of vanishing."""
    if not lines:
        return {}
    # answers are keyed by id: the same id on two DIFFERENT lines would alias two cases (an error of the check);
    # a line that simply occurs twice is sent once
    seen = {}
    uniq = []
    for l in lines:
        cid = l.split('\t', 1)[0]
        if cid in seen:
            if seen[cid] != l:
                raise RuntimeError('run_cases: case id %r names two different cases within one batch (answers are keyed by id)' % cid)
            continue
        seen[cid] = l
        uniq.append(l)
    lines = uniq
    n = max(1, min(shards, len(lines) // 50 + 1))
    parts = [lines[i::n] for i in range(n)]
    res = {}
    dead = []
    with cf.ThreadPoolExecutor(max_workers=n) as ex:
        for part, (out, why) in zip(parts, ex.map(_run_shard, [(exe, p) for p in parts])):
            _parse_answers(out, res)
            if why is not None:
                dead.append((part, why))
    for part, why in dead:
        missing = [l for l in part if l.split('\t', 1)[0] not in res]
        budget = 40
        for l in missing:
            cid = l.split('\t', 1)[0]
            if budget <= 0:
                res[cid] = 'child-died unattributed (an earlier case of the same process died: %s)' % why[:120]
                continue
            out, w1 = _run_shard((exe, [l]))
            _parse_answers(out, res)
            if cid not in res:
                budget -= 1
                res[cid] = 'child-died ' + (w1 or why)[:200]
    _count_skips(exe, lines, res)
    return res


def case_line(cid, op, tid, tsexp, *args):
    return '\t'.join([str(cid), op, str(tid), tsexp] + [str(a) for a in args])


# ------------------------------------------------------------------ reporting
def write_replay(pid, seed, payload):
    os.makedirs(REPLAYS, exist_ok=True)
    payload = dict(payload)
    payload.setdefault('seed', int(seed))
    payload.setdefault('tier', os.environ.get('VERIF_TIER', 'quick'))
    payload.setdefault('rerun', 'VERIF_SEED=%s bin/check %s --tier %s   (deterministic: the same seed regenerates the same cases)' % (seed, pid, os.environ.get('VERIF_TIER', 'quick')))
    path = '%s/%s-%s.json' % (REPLAYS, pid, seed)
    with open(path, 'w') as f:
        json.dump(payload, f, indent=1)
    return path


def write_evidence(pid, tier, seed, coverage, assumptions, wall_s, violations, level='proof'):
    os.makedirs(EVIDENCE, exist_ok=True)
    ev = {'property_id': pid, 'tier': tier, 'seed': int(seed), 'level': level, 'coverage': coverage,
          'assumptions': assumptions, 'wall_s': round(wall_s, 2), 'violations': int(violations)}
    with open('%s/%s.json' % (EVIDENCE, pid), 'w') as f:
        json.dump(ev, f, indent=1)
    return ev


def known_findings():
    known, fixed = [], []
    p = V + '/known_findings.txt'
    if os.path.exists(p):
        for line in open(p):
            line = line.strip()
            if line.startswith('known:'):
                known.append(line)
            elif line.startswith('fixed:'):
                fixed.append(line)
    return known, fixed


TRUSTED_BASE = [
    'Coq 8.16.1 kernel (coqc full .vo build; vm_compute used in non-vacuity examples and finite-table lemmas; native_compute not used)',
    'no axioms: every property theorem prints "Closed under the global context"',
    'extraction: ExtrOcamlBasic only (bool, option, unit, list, prod, sumbool, sumor; andb/orb inlined), OCaml 4.13.1',
    'hand-written Gallina model of the Rust code, tied to /repo by differential execution on generated inputs (this run)',
    'correspondence machinery: gen/*.py generators, harness Model impls (from_val/to_val), canonical printers, error-message classifier, ocaml/driver.ml parser',
    'rustc/cargo, core/alloc/std and the optional dependency crates are exercised, not modelled',
]


# ------------------------------------------------------------------ verdict
def conclude(pid, tier, seed, t0, coq, stats, disagreements, failures, search=None, level_note=None,
             extra_assumptions=None):
    """Common end of every check.
    coq: result of coq_property; stats: dict merged into evidence coverage;
    disagreements: model/implementation differences (dicts with 'what');
    failures: inputs on which the *property itself* fails on the implementation (dicts with 'key', 'what');
    search: callable() -> list of failures, invoked when something broke but no failing input is known yet."""
    known, _fixed = known_findings()
    known_here = [k for k in known if ('property=%s ' % pid) in k]
    reported = []
    for f in failures:
        hit = [k for k in known_here if ('class=%s ' % f.get('class', '?')) in k + ' ']
        if hit:
            f['known'] = True
        else:
            reported.append(f)
    for k in known_here:
        cls = re.search(r'class=(\S+)', k)
        still = [f for f in failures if f.get('known') and cls and f.get('class') == cls.group(1)]
        if still:
            print('KNOWN-FINDING: property=%s %s' % (pid, k.split(' ', 2)[-1]))
    skipped, over = skip_report()
    stats = dict(stats)
    stats['answers_skipped_by_harness'] = skipped
    for o in over:
        disagreements.append({'what': 'the harness skipped too many cases for the stage to decide anything: ' + o})
    broken = []
    if not coq.get('ok'):
        broken.append('proof: ' + '; '.join(coq.get('problems', [])[:4]) + ((' at ' + coq['failed_at']) if coq.get('failed_at') else ''))
    if disagreements:
        broken.append('correspondence: %d disagreement(s), first: %s' % (len(disagreements), disagreements[0].get('what', '')[:300]))
    if broken and not reported and search is not None:
        try:
            more = search()
        except Exception as e:  # the search is best effort
            more = []
            broken.append('search failed: %r' % (e,))
        for f in more:
            hit = [k for k in known_here if ('class=%s ' % f.get('class', '?')) in k + ' ']
            if not hit:
                reported.append(f)
    rc = 0
    coverage = dict(stats)
    coverage.update({
        'obligations': coq.get('obligations', 0),
        'discharged': coq.get('discharged', 0),
        'theorems': coq.get('theorems', []),
        'checker_cmd': 'make Properties/%s.vo (coqc 8.16.1, full .vo) + coqc Properties/%s.v with Print Assumptions; source audit for Admitted/admit/Axiom/Parameter/...' % (pid, pid),
        'trusted_base': TRUSTED_BASE,
        'proof_wall_s': coq.get('wall_s'),
        'coqchk': ('run: ' + ' '.join(coq['coqchk'].split())[-300:]) if coq.get('coqchk') else 'not run in this tier',
        'disagreements_checked': len(disagreements),
    })
    if reported:
        f = reported[0]
        path = write_replay(pid, seed, {'property': pid, 'kind': 'failing-input', 'failure': f,
                                        'all_failures': reported[:20], 'broken': broken})
        print('VIOLATION property=%s replay=%s' % (pid, path))
        rc = 1
    elif broken:
        path = write_replay(pid, seed, {'property': pid, 'kind': 'no-failing-input-found', 'broken': broken,
                                        'disagreements': disagreements[:20], 'coq_log': coq.get('log', '')[-3000:]})
        print('VIOLATION property=%s replay=%s no-failing-input-found' % (pid, path))
        rc = 1
    assumptions = list(extra_assumptions or [])
    if level_note:
        assumptions.append(level_note)
    # a run whose proof side did not close claims no proof
    if not (coq.get('discharged', 0) >= 1 and coq.get('discharged') == coq.get('obligations')):
        coverage['explanation'] = 'the proof side did not close on this run (%s); the counts below are what the correspondence part did' % '; '.join(coq.get('problems', [])[:3])
    write_evidence(pid, tier, seed, coverage, assumptions, time.time() - t0, len(reported) + (1 if (broken and not reported) else 0),
                   level='proof' if coq.get('discharged', 0) >= 1 and coq.get('discharged') == coq.get('obligations') else 'other')
    if rc == 0:
        print('OK %s: %d/%d theorems closed, %s evaluations, 0 disagreements (%.1fs)' % (
            pid, coq.get('discharged', 0), coq.get('obligations', 0), stats.get('evaluations', '?'), time.time() - t0))
    return rc


def conclude_broken(pid, tier, seed, t0, why):
    """The check itself could not be carried out: VIOLATION ... no-failing-input-found, a replay file naming what broke, and an
    evidence file that says so (never the file of an earlier run)."""
    path = write_replay(pid, seed, {'property': pid, 'kind': 'no-failing-input-found', 'broken': ['machinery: ' + why],
                                    'disagreements': [], 'coq_log': ''})
    print('VIOLATION property=%s replay=%s no-failing-input-found' % (pid, path))
    try:
        required = json.load(open(COQ + '/REQUIRED_THEOREMS.json')).get(pid) or ['?']
    except (OSError, ValueError):
        required = ['?']
    write_evidence(pid, tier, seed, {'explanation': 'the check did not complete, nothing is claimed: ' + why[:600],
                                     'evaluations': 0, 'distinct_nontrivial': 0, 'rule': 'the run ended before any case was judged: ' + why[:400],
                                     'samples': [why[:400]], 'obligations': len(required), 'discharged': 0, 'theorems': required,
                                     'checker_cmd': 'not reached', 'trusted_base': TRUSTED_BASE, 'traces_validated_against_impl': 0},
                   ['the check did not complete; nothing is claimed for this run'], time.time() - t0, 1, level='other')
    return 1


def ensure_harnesses(cfgs):
    """Build several configurations in parallel.  Returns ({cfg: exe}, [build failure descriptions])."""
    ensure_catalogue()
    exes, fails = {}, []
    with cf.ThreadPoolExecutor(max_workers=len(cfgs)) as ex:
        for cfg, (exe, log) in zip(cfgs, ex.map(ensure_harness, cfgs)):
            if exe is None:
                errs = [l for l in log.split('\n') if l.startswith('error')]
                fails.append({'what': 'harness build failed for %s: %s' % (cfg, ' | '.join(errs[:3]) or log[-400:])})
            else:
                exes[cfg] = exe
    return exes, fails


def generic_replay(pid, path, mod):
    """Replay: show the recorded failing input, then re-run the check deterministically with the
    recorded seed and tier against /repo's current working tree."""
    d = json.load(open(path))
    print('replay of %s (%s)' % (path, d.get('kind')))
    f = d.get('failure')
    if f:
        print('failing input: ' + str(f.get('what', f))[:2000])
    for b in d.get('broken', [])[:5]:
        print('broken: ' + str(b)[:1000])
    seed, tier = int(d.get('seed', 1)), d.get('tier', 'quick')
    os.environ['VERIF_TIER'] = tier
    os.environ['VERIF_SEED'] = str(seed)
    os.environ.setdefault('VERIF_EVIDENCE_DIR', CACHE + '/replay-evidence')
    global EVIDENCE
    EVIDENCE = os.environ['VERIF_EVIDENCE_DIR']
    print('re-running: VERIF_SEED=%d bin/check %s --tier %s' % (seed, pid, tier))
    return mod.run(tier, seed, time.time())
