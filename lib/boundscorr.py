"""C06_bounds correspondence: the where-clauses the real derives emit, observed behaviourally, against
`bounds_of` of coq/Generics.v (driver op `bounds`), and the inner structs of the BorshSchema derive against
coq/GenericsSchema.v (driver op `inner`).

`cargo expand` is not available, so a bound is observed through trait resolution: for a generated generic
item G<T0, T1, ..>, a derive kind and a probed trait, G is instantiated with one parameter at a marker type
that lacks exactly that trait (or whose associated type `<P as Tr>::A` lacks it) and all others at a marker
that has everything; `fn need<T: Trait>() {}` applied to the instantiation type-checks iff every predicate
of the impl's where-clause holds (impl selection never looks at the body).  The expectation is computed from
the MODEL's predicate list.  One item / one probe per `mod`, `cargo check --message-format=json`, spans
attribute the E0277s (lib/cargoprobe.py).  Items whose BorshSchema inner struct the model predicts to be
ill-scoped (`scope:0`, finding F14) get their BorshSchema derive in a second crate: E0401 is a resolution
error and would hide every type-check diagnostic of the first crate."""
import re
import subprocess
from collections import Counter

from vlib import *  # noqa
import cargoprobe as cp
import items as I

TRAITS = {'ser': 'BorshSerialize', 'de': 'BorshDeserialize', 'default': 'Default', 'schema': 'BorshSchema'}
KIND_TRAITS = {'ser': ['ser'], 'de': ['de', 'default'], 'schema': ['schema']}
KIND_DERIVE = {'ser': 'BorshSerialize', 'de': 'BorshDeserialize', 'schema': 'BorshSchema'}
KIND_NEED = {'ser': 'need_ser', 'de': 'need_de', 'schema': 'need_schema'}
USER_TRAIT = {'BorshSerialize': 'ser', 'BorshDeserialize': 'de', 'Default': 'default', 'BorshSchema': 'schema'}


def marker(level, tr):
    """the marker type lacking `tr` itself (level self) or in its associated type (level assoc)"""
    return ('No' if level == 'self' else 'ANo') + tr.capitalize()


def prelude():
    derive = {'ser': 'borsh::BorshSerialize', 'de': 'borsh::BorshDeserialize', 'default': 'Default', 'schema': 'borsh::BorshSchema'}
    out = ['pub trait Tr { type A; }', 'impl Tr for u8 { type A = Full; }',      # (u8: the default of defaulted parameters)
           'pub fn need_ser<T: borsh::BorshSerialize>() {}',
           'pub fn need_de<T: borsh::BorshDeserialize>() {}',
           'pub fn need_schema<T: borsh::BorshSchema>() {}',
           'macro_rules! T0 { () => { u8 } }', 'macro_rules! T1 { () => { u16 } }', 'macro_rules! T2 { () => { u32 } }',
           '#[derive(borsh::BorshSerialize, borsh::BorshDeserialize, borsh::BorshSchema)]',
           'pub struct PrimaryMap<K, V> { pub elems: Vec<V>, pub unused: core::marker::PhantomData<K> }']

    def mk(name, lacking, assoc):
        ds = ', '.join(d for t, d in derive.items() if t != lacking)
        out.append('#[derive(Clone, Debug, PartialEq, Eq, PartialOrd, Ord, Hash, %s)]' % ds)
        out.append('pub struct %s;' % name)
        out.append('impl Tr for %s { type A = %s; }' % (name, assoc))
    mk('Full', None, 'Full')
    for tr in TRAITS:
        mk(marker('self', tr), tr, 'Full')
        mk(marker('assoc', tr), None, marker('self', tr))
    return '\n'.join(out)


SUBJECT = [(re.compile(r'^(T\d+)$'), 'self'), (re.compile(r'^(T\d+)::A$'), 'assoc'), (re.compile(r'^<(T\d+)ascrate::Tr>::A$'), 'assoc')]


def parse_pred(s):
    """'B|trait|subject' / 'U|subject|Tr1,Tr2' / 'L|text' -> (subject (P, level) | None, set of probed traits, raw)"""
    f = s.split('|')
    if f[0] == 'L':
        return ('lifetime', set(), s)
    subj, traits = (f[2], {f[1]}) if f[0] == 'B' else (f[1], {USER_TRAIT[t] for t in f[2].split(',') if t in USER_TRAIT})
    flat = subj.replace(' ', '')
    for rx, level in SUBJECT:
        m = rx.match(flat)
        if m:
            return ((m.group(1), level), traits, s)
    return (None, traits, s)


def check_modules_primary(name, modules, prelude_text):
    """like cargoprobe.check_modules, but a diagnostic is attributed by its PRIMARY spans only: the notes of an
    E0277 ("required for `G<NoSer, Full>` to implement ..") point into the derive of the item's module too"""
    d, ranges = cp.module_crate(name, modules, None, prelude_text)
    rc, errs, tail = cp.cargo_check(d, 'target-probe')
    by_mod, lost = {}, []
    for e in errs:
        if e.get('message', '').startswith('aborting due to'):
            continue
        lines, macros = [], []

        def walk(sp):
            if sp is None:
                return
            if sp.get('file_name', '').endswith('lib.rs'):
                lines.append(sp['line_start'])
            if sp.get('expansion'):
                m = sp['expansion'].get('macro_decl_name')
                if m and m not in macros:
                    macros.append(m)
                walk(sp['expansion'].get('span'))
        for sp in e.get('spans', []):
            if sp.get('is_primary'):
                walk(sp)
        hit = {m for ln in lines for a, b, m in ranges if a <= ln <= b}
        if not hit:
            lost.append(e.get('message', '?'))
        for m in hit:
            by_mod.setdefault(m, []).append(((e.get('code') or {}).get('code'),
                                             e.get('message', '')[:160] + (' [in the expansion of %s]' % ' / '.join(macros) if macros else '')))
    if rc != 0 and not errs:
        lost.append('cargo failed without diagnostics: ' + tail[-400:])
    return {m: by_mod.get(m) for _, _, m in ranges}, lost, rc


def model_bounds(driver, items):
    lines = []
    for n, it in enumerate(items):
        sx = I.gitem_sexp(it)
        for k in KIND_TRAITS:
            lines.append('\t'.join(['b%d_%s' % (n, k), 'bounds', '-', '-', k, sx]))
        lines.append('\t'.join(['n%d' % n, 'inner', '-', '-', sx]))
    res = run_cases(driver, lines)
    out = []
    for n, it in enumerate(items):
        rec = {'preds': {}, 'eq': True, 'error': None}
        for k in KIND_TRAITS:
            r = res.get('b%d_%s' % (n, k))
            if r is None or not r.startswith('eq:'):
                rec['error'] = 'driver: %s' % r
                continue
            f = r.split('\t')
            rec['eq'] = rec['eq'] and f[0] == 'eq:1'
            rec['preds'][k] = [parse_pred(x) for x in f[1:] if x]
        r = res.get('n%d' % n)
        if r is None or not r.startswith('decl:'):
            rec['error'] = 'driver: %s' % r
            rec['decl'], rec['inner'] = [], []
        else:
            f = r.split('\t')
            rec['decl'] = [x for x in f[0][5:].split(';') if x]
            rec['inner'] = []
            for v in f[1:]:
                name, gens, preds, scope, vdecl = v.split('|')
                rec['inner'].append({'variant': name, 'generics': [g for g in gens.split(',') if g], 'where': [p for p in preds.split(';') if p],
                                     'scope': scope == 'scope:1', 'decl': [x for x in vdecl[5:].split(';') if x]})
        rec['scope_ok'] = all(v['scope'] for v in rec['inner'])
        out.append(rec)
    return out


def probes_for(it, rec, tier):
    """[(kind, P, trait, level, expected_to_fail, because)]"""
    out = []
    params = [p for p, _ in it['params']]
    for kind, traits in KIND_TRAITS.items():
        if kind not in I.gitem_kinds(it):
            continue
        probed = list(TRAITS) if tier == 'thorough' else traits
        for P in params:
            for tr in probed:
                for level in (['self', 'assoc'] if P in it['tr'] else ['self']):
                    why = [raw for subj, trs, raw in rec['preds'].get(kind, []) if subj == (P, level) and tr in trs]
                    out.append((kind, P, tr, level, bool(why), why))
    return out


def instantiate(it, P=None, mark='Full'):
    """the item with its lifetime parameters at 'static, its const parameters at 2 and its type parameters at markers"""
    return 'crate::g_%s::%s%s' % (it['name'].lower(), it['name'],
                                  I.gitem_inst(it, ['crate::' + (mark if p == P else 'Full') for p, _ in it['params']]))


DECL_MAIN = '''#![allow(dead_code, unused_imports, unused_variables, unused_mut, non_camel_case_types, non_snake_case, unused_parens)]
pub trait Tr { type A; }
impl Tr for u8 { type A = i8; }
impl Tr for u16 { type A = i16; }
impl Tr for u32 { type A = i32; }
macro_rules! T0 { () => { u8 } }
macro_rules! T1 { () => { u16 } }
macro_rules! T2 { () => { u32 } }
#[derive(borsh::BorshSerialize, borsh::BorshDeserialize, borsh::BorshSchema)]
pub struct PrimaryMap<K, V> { pub elems: Vec<V>, pub unused: core::marker::PhantomData<K> }
fn show<T: borsh::BorshSchema>(name: &str) {
    let mut defs = Default::default();
    T::add_definitions_recursively(&mut defs);
    let d = T::declaration();
    let vs = match defs.get(&d) {
        Some(borsh::schema::Definition::Enum { variants, .. }) => variants.iter().map(|(_, n, d)| format!("{}={}", n, d)).collect::<Vec<_>>().join(";"),
        _ => String::new(),
    };
    println!("{}\\t{}\\t{}", name, d, vs);
}
'''
INST = ['u8', 'u16', 'u32']
INST_ASSOC = {'u8': 'i8', 'u16': 'i16', 'u32': 'i32'}


def expected_declaration(name, params, decl):
    """Name<d1, ..> from the model's declaration parameter types at T0 := u8, T1 := u16, T2 := u32, <Ti as Tr>::A := i8/i16/i32"""
    at = {p: INST[i] for i, (p, _) in enumerate(params)}
    ds = []
    for t in decl:
        flat = t.replace(' ', '')
        for rx, level in SUBJECT:
            m = rx.match(flat)
            if m:
                ds.append(at[m.group(1)] if level == 'self' else INST_ASSOC[at[m.group(1)]])
                break
        else:
            return None
    return name + ('<%s>' % ', '.join(ds) if ds else '')


def declaration_stage(items, model, stats, disagreements, skip=()):
    """run-time `declaration()` of every item the BorshSchema derive accepts (and of its per-variant inner structs, read
    from the enum's definition) against GenericsSchema.v: `schema_declaration` of the item and of `inner_struct it v`"""
    live = [(n, it) for n, it in enumerate(items) if model[n]['scope_ok'] and not model[n]['error'] and len(it['params']) <= 3
            and 'schema' in I.gitem_kinds(it) and n not in skip]
    src = [DECL_MAIN]
    for n, it in live:
        src.append('pub mod g_%s {\n%s\n}' % (it['name'].lower(), I.gitem_rust(it, ['BorshSchema'])))
    src.append('fn main() {')
    for n, it in live:
        src.append('    show::<g_%s::%s%s>("%s");' % (it['name'].lower(), it['name'], I.gitem_inst(it, INST[:len(it['params'])]), it['name']))
    src.append('}')
    d = cp.make_crate('c06_bounds_decl', {'main.rs': '\n'.join(src) + '\n'})
    cmd = ['timeout', '900', 'cargo', 'run', '--offline', '--quiet', '--target-dir', CACHE + '/target-probe' + cp.TAG]
    p = subprocess.run(cmd, cwd=d, env=ENV, stdout=subprocess.PIPE, stderr=subprocess.PIPE, text=True)
    rows = {}
    for l in p.stdout.split('\n'):
        f = l.split('\t')
        if len(f) == 3:
            rows[f[0]] = (f[1], f[2])
    if p.returncode != 0 or not rows:
        disagreements.append({'what': 'declaration probe crate does not build/run: ' + p.stderr[-600:]})
        return
    for n, it in live:
        rec = model[n]
        got = rows.get(it['name'])
        stats['evaluations'] += 1
        stats['declarations_checked'] += 1
        want = expected_declaration(it['name'], it['params'], rec['decl'])
        if got is None or want is None or got[0] != want:
            disagreements.append({'what': 'declaration() of %s at <%s>: implementation %s, model %s (declaration parameters %s)'
                                          % (it['name'], ', '.join(INST[:len(it['params'])]), got and got[0], want, rec['decl']),
                                  'rust': I.gitem_rust(it, ['BorshSchema'])})
            continue
        if it['kind'] == 'enum':
            # the entry keeps the variant's name as written (`r#type`); the inner struct is called Enum ++ Variant without
            # the `r#` prefixes (95a0033; GenericsSchema.v `inner_struct` still concatenates the names as they are)
            wantv = ';'.join('%s=%s' % (v['variant'], expected_declaration(I.unraw(it['name']) + I.unraw(v['variant']), it['params'], v['decl']))
                             for v in rec['inner'])
            stats['variant_declarations_checked'] += len(rec['inner'])
            if got[1] != wantv:
                disagreements.append({'what': 'inner structs of %s: implementation declares %s, model %s' % (it['name'], got[1], wantv),
                                      'rust': I.gitem_rust(it, ['BorshSchema'])})


def _walk_gty(t, under=()):
    """(wrapper kinds above, node) for every node of a type expression"""
    yield under, t
    k = t[0]
    if k == 'wrap':
        w = t[1] if isinstance(t[1], str) else t[1][0]
        yield from _walk_gty(t[2], under + (w,))
    elif k == 'tuple':
        for x in t[1]:
            yield from _walk_gty(x, under)
    elif k == 'fn':
        for x in t[1] + ([t[2]] if t[2] is not None else []):
            yield from _walk_gty(x, under)
    elif k == 'path':
        if t[1] is not None:
            yield from _walk_gty(t[1], under)
        for _, args in t[4]:
            for a in (args[1] if args is not None else []):
                if a[0] in ('ty', 'assoc'):
                    yield from _walk_gty(a[-1], under)


def shapes_of(it):
    """coverage classes of an item: which visitor arms / parameter kinds / identifier kinds it exercises"""
    out = set()
    sch = ':with-BorshSchema' if 'schema' in I.gitem_kinds(it) else ':without-BorshSchema'
    if it.get('lifetimes'):
        out.add('lifetime-param:' + it['kind'] + sch)
    if it.get('consts'):
        out.add('const-param:' + it['kind'] + sch)
    names = [f['name'] for f in I.gitem_fields(it)] + [v['name'] for v in it.get('variants', [])]
    if any(n.startswith('r#') for n in names):
        out.add('raw-ident:' + it['kind'])
    for f in I.gitem_fields(it):
        for under, node in _walk_gty(f['ty']):
            if node[0] == 'param':
                for w in set(under) & {'slice', 'ref', 'ptr'}:
                    out.add('param-under-%s:%s' % (w, 'skipped' if f['skip'] else 'serialized'))
    return out


def run_stage(driver, seed, tier, count=None):
    count = count or (150 if tier == 'thorough' else 64)
    items = I.gen_bounds_items(seed, count)
    stats = Counter()
    disagreements, failures, samples = [], [], []
    model = model_bounds(driver, items)
    mods, meta = [], {}
    scope_mods = []
    for n, (it, rec) in enumerate(zip(items, model)):
        stats['bounds_items'] += 1
        stats['bounds_items_' + it['kind']] += 1
        if rec['error']:
            disagreements.append({'what': 'bounds: the model driver gave no answer for %s: %s' % (it['name'], rec['error']), 'item': I.gitem_sexp(it)})
            continue
        if not rec['eq']:
            disagreements.append({'what': 'bounds: bounds_of <> documented_bounds on %s (contradicts theorem C06_bounds)' % it['name'], 'item': I.gitem_sexp(it)})
        kinds = I.gitem_kinds(it)
        for sh in shapes_of(it):
            stats['shape:' + sh] += 1
        for k, preds in rec['preds'].items():
            if k not in kinds:
                continue
            for subj, trs, raw in preds:
                stats['model_predicates'] += 1
                if subj is None:
                    disagreements.append({'what': 'bounds: predicate of %s (%s) with a subject the probe cannot evaluate: %s' % (it['name'], k, raw)})
        derives = [KIND_DERIVE[k] for k in ('ser', 'de', 'schema') if k in kinds and (k != 'schema' or rec['scope_ok'])]
        mods.append(('g_' + it['name'].lower(), I.gitem_rust(it, derives)))
        meta['g_' + it['name'].lower()] = ('item', n, None)
        if not rec['scope_ok'] and 'schema' in kinds:
            stats['schema_scope_predicted_bad'] += 1
            scope_mods.append(('s_' + it['name'].lower(), I.gitem_rust(it, ['BorshSchema']), n))
        if it.get('noprobe'):
            continue
        for kind in KIND_TRAITS:
            if kind not in kinds or (kind == 'schema' and not rec['scope_ok']):
                continue
            name = 'c_%s_%s' % (it['name'].lower(), kind)                       # positive control: everything at Full
            mods.append((name, 'pub fn p() { crate::%s::<%s>(); }' % (KIND_NEED[kind], instantiate(it))))
            meta[name] = ('control', n, kind)
        for kind, P, tr, level, expect, why in probes_for(it, rec, tier):
            if kind == 'schema' and not rec['scope_ok']:
                continue
            name = 'p_%s_%s_%s_%s_%s' % (it['name'].lower(), kind, P.lower(), tr, level)
            mods.append((name, 'pub fn p() { crate::%s::<%s>(); }' % (KIND_NEED[kind], instantiate(it, P, marker(level, tr)))))
            meta[name] = ('probe', n, (kind, P, tr, level, expect, why))
    res, lost, rc = check_modules_primary('c06_bounds', mods, prelude())
    first_broken = {meta[name][1] for name, errs in res.items() if meta[name][0] == 'item' and errs is not None}
    if first_broken:
        # items whose derives do not compile are reported below; a resolution error among them (E0401 / E0261 / E0425 in an
        # emitted inner struct) stops rustc before type checking and would make every probe look accepted: once more without them
        stats['bounds_crate_rebuilt_without_broken_items'] = len(first_broken)
        res2, lost, rc = check_modules_primary('c06_bounds', [(nm, b) for nm, b in mods if meta[nm][1] not in first_broken], prelude())
        res = dict([(nm, e) for nm, e in res.items() if meta[nm][1] in first_broken] + list(res2.items()))
    if lost:
        disagreements.append({'what': 'bounds probe: diagnostics that could not be attributed: ' + '; '.join(lost[:3])})
    broken_items = set()
    for name, errs in res.items():
        what, n, info = meta[name]
        it = items[n]
        if what == 'item' and errs is not None:
            broken_items.add(n)
            failures.append({'class': 'generic-item-does-not-compile', 'key': it['name'],
                             'what': 'the derives on %s do not compile (the model gives it the where-clauses %s): %s %s'
                                     % (it['name'], {k: [r for _, _, r in v] for k, v in model[n]['preds'].items() if k in I.gitem_kinds(it)}, errs[0][0], errs[0][1][:300]),
                             'rust': I.gitem_rust(it, [KIND_DERIVE[k] for k in I.gitem_kinds(it)])})
    for name, errs in res.items():
        what, n, info = meta[name]
        it = items[n]
        if what == 'item' or n in broken_items:
            continue
        stats['evaluations'] += 1
        failed = errs is not None
        if what == 'control':
            stats['bounds_controls'] += 1
            if failed:
                failures.append({'class': 'bounds-control', 'key': it['name'],
                                 'what': '%s of %s at the all-implementing marker is refused: %s' % (KIND_DERIVE[info], it['name'], errs[0][1][:200]),
                                 'rust': I.gitem_rust(it)})
            continue
        kind, P, tr, level, expect, why = info
        stats['bounds_probes'] += 1
        stats['bounds_probes_required' if expect else 'bounds_probes_not_required'] += 1
        stats['probe:%s/%s/%s' % (kind, tr, level)] += 1
        if failed != expect:
            subject = P if level == 'self' else '<%s as Tr>::A' % P
            disagreements.append({
                'what': 'bounds: derive(%s) on %s %s `%s: %s` (observed: need::<%s> %s), the model %s'
                        % (KIND_DERIVE[kind], it['name'], 'requires' if failed else 'does not require', subject, TRAITS[tr],
                           instantiate(it, P, marker(level, tr)), 'is refused: ' + errs[0][1][:120] if failed else 'type-checks',
                           ('lists ' + '; '.join(why)) if expect else 'lists no such predicate'),
                'rust': I.gitem_rust(it), 'item': I.gitem_sexp(it),
                'model_where': [r for _, _, r in model[n]['preds'].get(kind, [])]})
        elif len(samples) < 10 and (stats['bounds_probes'] % 37 == 1):
            samples.append({'item': I.gitem_rust(it).split('\n')[-1][:200], 'derive': KIND_DERIVE[kind],
                            'probe': '%s at %s' % (P, marker(level, tr)), 'refused': failed,
                            'model_where': [r for _, _, r in model[n]['preds'].get(kind, [])]})
    # ---- the inner structs of the BorshSchema derive whose scope the model predicts to be broken (F14)
    if scope_mods:
        res2, lost2, rc2 = check_modules_primary('c06_bounds_scope', [(a, b) for a, b, _ in scope_mods], prelude())
        for name, src, n in scope_mods:
            it = items[n]
            errs = res2.get(name)
            stats['evaluations'] += 1
            bad = [v for v in model[n]['inner'] if not v['scope']]
            if errs is None:
                disagreements.append({'what': 'schema inner struct: the model predicts that %s%s does not declare a parameter its fields name, '
                                              'but derive(BorshSchema) on %s compiles' % (it['name'], bad[0]['variant'], it['name']),
                                      'rust': src, 'item': I.gitem_sexp(it)})
            else:
                stats['schema_scope_confirmed_bad'] += 1
                # the known finding F14 is E0401 (a generic parameter of the outer item used in an inner item); any other
                # refusal of such an item is something else
                failures.append({'class': 'schema-inner-struct-param-scope' if str(errs[0][0]) == 'E0401' else 'generic-item-does-not-compile', 'key': it['name'],
                                 'what': 'derive(BorshSchema) on %s does not compile (%s: %s): the inner struct %s%s is emitted with the generics <%s> '
                                         'although its fields name another type parameter of the enum'
                                         % (it['name'], errs[0][0], errs[0][1][:80], it['name'], bad[0]['variant'], ', '.join(bad[0]['generics'])),
                                 'rust': src})
        if lost2:
            disagreements.append({'what': 'schema scope probe: diagnostics that could not be attributed: ' + '; '.join(lost2[:3])})
    # ---- the shape kept out of the BorshSchema corpus (finding F19, gen/items.py gen_bounds_item2): reported under its own failure class
    cand = [(n, it) for n, it in enumerate(items) if it.get('candidate') == 'schema-inner-struct-unused-lifetime' and model[n]['scope_ok']]
    if cand:
        res3, lost3, rc3 = check_modules_primary('c06_bounds_lifetime', [('l_' + it['name'].lower(), I.gitem_rust(it, ['BorshSchema'])) for _, it in cand],
                                                 prelude())
        for n, it in cand:
            errs = res3.get('l_' + it['name'].lower())
            stats['evaluations'] += 1
            stats['candidate:enum-variant-without-the-lifetime:BorshSchema-' + ('compiles' if errs is None else 'refused-' + str(errs[0][0]))] += 1
            if errs is not None:       # finding F19: the serialization derives accept the item, the schema derive does not
                failures.append({'class': 'schema-inner-struct-unused-lifetime' if str(errs[0][0]) == 'E0392' else 'generic-item-does-not-compile', 'key': it['name'],
                                 'what': 'derive(BorshSchema) on %s does not compile (%s: %s): the inner struct of a variant that does not mention the '
                                         'enum\'s lifetime parameter still declares it; BorshSerialize / BorshDeserialize accept the definition'
                                         % (it['name'], errs[0][0], errs[0][1][:80]),
                                 'rust': I.gitem_rust(it, ['BorshSchema'])})
    declaration_stage(items, model, stats, disagreements, skip=broken_items)
    ev = {'bounds_items': stats['bounds_items'], 'bounds_stats': dict(stats), 'bounds_samples': samples,
          'bounds_rule': 'generic items from gen/items.py gen_bounds_items (rustdoc examples, the generic items of the main corpus, seeded items over '
                         'param / Vec / Option / Box / array / tuple / paren / PhantomData / P::A / Vec<P::A> / <P as Tr>::A / HashMap with bound overrides / '
                         'skipped fields (plain, bound(deserialize = ""), fn pointer, PhantomData, P::A) / schema(params) / type macros / defaulted parameters; '
                         'second family: Box<[P]> / Cow<\'a, [P]> / &\'a P / &\'a [P] (serialized: BorshSerialize only; skipped: all derives) / skipped '
                         'Option<*const P> / [P; N], lifetime and const generic parameters (at \'static and 2 in the probes), raw identifiers as field and '
                         'variant names: counts under bounds_stats shape:*); '
                         'one probe = (derive, parameter, trait, self | associated type): refused by rustc <-> the model lists a predicate with that subject and trait'}
    return ev, disagreements, failures
