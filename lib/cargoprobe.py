"""Compile-acceptance probes: a crate whose items each live in their own `mod`, checked
with `cargo check --message-format=json`; the spans of the error diagnostics tell WHICH
modules failed, so one failing item does not mask another (as long as all failures are
in the same compiler phase -- callers keep expansion-phase and type-check-phase
negatives in separate crates)."""
import json
import os
import shutil
import subprocess

V = os.environ.get('VERIF_ROOT') or os.path.dirname(os.path.dirname(os.path.abspath(__file__)))
CACHE = V + '/.cache'
ENV = dict(os.environ, CARGO_NET_OFFLINE='true')
# the tree under test; VERIF_REPO points the program checks at a scratch copy (mutation trials)
REPO = os.environ.get('VERIF_REPO', '/repo').rstrip('/') or '/repo'
import hashlib
TAG = '' if REPO == '/repo' else '-' + hashlib.sha1(REPO.encode()).hexdigest()[:8]

CARGO_TOML = '''[package]
name = "%(name)s"
version = "0.1.0"
edition = "2021"

[workspace]

[dependencies]
%(deps)s

[profile.dev]
opt-level = 0
debug = false
incremental = false
'''


# the dependency section of a probe crate.  Default: borsh with the derives and the schema feature (borsh-derive/schema);
# DEPS_NOSCHEMA: the plain `features = ["derive"]` configuration (borsh-derive WITHOUT its `schema` feature: no BorshSchema
# derive, no `schema(..)` field key); deps_reexport(): no dependency called `borsh` at all, only a crate re-exporting it
# (what `#[borsh(crate = "..")]` exists for: proc_macro_crate cannot find `borsh` in such a crate's Cargo.toml).
DEPS_DEFAULT = 'borsh = { path = "%(repo)s/borsh", features = ["derive", "unstable__schema", "rc"] }'
DEPS_NOSCHEMA = 'borsh = { path = "%(repo)s/borsh", features = ["derive"] }'


def reexporter_crate(repo=None):
    """a tiny library `reexporter` that depends on borsh (derives + schema) and does `pub use borsh;`"""
    return make_crate('reexporter', {'lib.rs': 'pub use borsh;\n'}, repo)


def deps_reexport(repo=None):
    return 'reexporter = { path = "%s" }' % reexporter_crate(repo)


def write_if_changed(path, text):
    old = open(path).read() if os.path.exists(path) else None
    if old != text:
        os.makedirs(os.path.dirname(path), exist_ok=True)
        with open(path, 'w') as f:
            f.write(text)


def make_crate(name, files, repo=None, main=False, deps=None):
    """files: {relative path under src/: text}.  Returns crate dir."""
    repo = repo or REPO
    d = '%s/crates%s/%s' % (CACHE, TAG, name)
    os.makedirs(d + '/src', exist_ok=True)
    write_if_changed(d + '/Cargo.toml', CARGO_TOML % {'name': name.replace('-', '_'), 'deps': (deps or DEPS_DEFAULT) % {'repo': repo}})
    if not os.path.exists(d + '/Cargo.lock'):
        shutil.copy(repo + '/Cargo.lock', d + '/Cargo.lock')
    keep = set()
    for rel, text in files.items():
        write_if_changed('%s/src/%s' % (d, rel), text)
        keep.add(rel)
    for f in os.listdir(d + '/src'):
        if f not in keep:
            os.remove('%s/src/%s' % (d, f))
    return d


def module_crate(name, modules, repo=None, prelude='', deps=None):
    """modules: ordered list of (mod_name, body).  Builds src/lib.rs with one `mod` per item and
    returns (crate dir, [(first_line, last_line, mod_name)])."""
    lines = ['#![allow(dead_code, unused_imports, unused_variables, unused_mut, non_camel_case_types, non_snake_case, unused_parens, clippy::all)]']
    if prelude:
        lines += prelude.split('\n')
    ranges = []
    for mod_name, body in modules:
        first = len(lines) + 1
        lines.append('pub mod %s {' % mod_name)
        lines += body.split('\n')
        lines.append('}')
        ranges.append((first, len(lines), mod_name))
    d = make_crate(name, {'lib.rs': '\n'.join(lines) + '\n'}, repo, deps=deps)
    return d, ranges


def cargo_check(crate_dir, target, timeout=1500):
    """Returns (rc, [diagnostic dict with level=='error'], raw tail)."""
    cmd = ['timeout', str(timeout), 'cargo', 'check', '--offline', '--message-format=json', '--target-dir',
           '%s/%s%s' % (CACHE, target, TAG)]
    p = subprocess.run(cmd, cwd=crate_dir, env=ENV, stdout=subprocess.PIPE, stderr=subprocess.PIPE, text=True,
                       timeout=timeout + 60)
    errs = []
    for line in p.stdout.split('\n'):
        if not line.startswith('{'):
            continue
        try:
            m = json.loads(line)
        except ValueError:
            continue
        if m.get('reason') != 'compiler-message':
            continue
        msg = m['message']
        if msg.get('level') == 'error':
            errs.append(msg)
    return p.returncode, errs, p.stderr[-1500:]


def primary_lines(msg):
    """Line numbers (in the user's source file) a diagnostic points at, following macro expansions."""
    out = []

    def walk(sp):
        if sp is None:
            return
        if sp.get('file_name', '').endswith('lib.rs'):
            out.append(sp['line_start'])
        exp = sp.get('expansion')
        if exp:
            walk(exp.get('span'))

    for sp in msg.get('spans', []):
        walk(sp)
    for ch in msg.get('children', []):
        for sp in ch.get('spans', []):
            walk(sp)
    return out


def failing_modules(errs, ranges):
    """{mod_name: [message, ...]} plus the list of errors that could not be attributed."""
    by_mod = {}
    lost = []
    for e in errs:
        if e.get('message', '').startswith('aborting due to'):
            continue
        hit = set()
        for ln in primary_lines(e):
            for a, b, name in ranges:
                if a <= ln <= b:
                    hit.add(name)
        if not hit:
            lost.append(e.get('message', '?'))
        for name in hit:
            by_mod.setdefault(name, []).append(((e.get('code') or {}).get('code'), e.get('message', '')))
    return by_mod, lost


def check_modules(name, modules, repo=None, target='target-probe', prelude=''):
    """Compile a module crate; returns {mod_name: None (compiles) | [(code, message)...]}, lost, rc."""
    d, ranges = module_crate(name, modules, repo, prelude)
    rc, errs, tail = cargo_check(d, target)
    by_mod, lost = failing_modules(errs, ranges)
    if rc != 0 and not errs:
        # a timeout, a lock wait that ran out, a borsh that no longer builds: NOT "every module compiles"
        raise RuntimeError('cargo check of %s failed (rc %s) without a diagnostic that can be attributed: %s' % (name, rc, tail[-400:]))
    res = {}
    for _, _, m in ranges:
        res[m] = by_mod.get(m)
    return res, lost, rc
