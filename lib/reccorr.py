"""Correspondence for RECURSIVE derived items (harness/src/items_rec.rs, ids 200000..).

The Coq type universe has no recursive types.  A recursive Rust item is covered through its
finite unfoldings (gen/rectypes.py): a value of nesting depth d is typed at the unfolding with
fuel d (and every larger one); Properties/C01rec.v proves that the model's bytes and decoding do
not depend on the fuel once it is >= d, and that a successful model decode at fuel n is the same
at every larger fuel.  The implementation is selected by the item's id, the model gets the
unfolded type on the case line.

  rec_stage          C01: enc (impl vs model at fuel d; model at fuel d+2 identical; hasty at d;
                     model enc at fuel d-1 reaches the cut), dec of bytes++tail (impl vs model at
                     fuel d and d+1), try_from_slice of the exact bytes, and the round-trip oracle
                     on the implementation alone.
  rec_hostile_stage  C05 / C16: truncations, tails, single-byte corruptions and random strings,
                     entry points deserialize / try_from_slice, impl vs model at a fuel that the
                     input length makes conclusive (Tree, List, Rec) or a capped fuel (Json, whose
                     unfolding is exponential): when the model answers `err InvalidData Zst` the
                     placeholder was reached and the case is INCONCLUSIVE, not a disagreement.
"""
import random
from collections import Counter

from vlib import CONFIGS, case_line, run_cases
import rectypes as rt
from codec import truncations, corruptions, error_class

TAILS = ['', 'aa', '00ff01']
JSON_FUEL_CAP = {'quick': 8, 'thorough': 10}
BIG_SEXP = 300000        # no extra-fuel variants of a case whose type is longer than this


def _trunc(s, n=300):
    return s if len(s) <= n else s[:n] + '...[%d chars]' % len(s)


def _tyname(name, fuel):
    return 'unfold(%s,%d)' % (name, fuel)


def _model_line(cid, op, name, fuel, *args):
    return case_line(cid, op, rt.IDS[name], rt.sexp_unfold(name, fuel), *args)


def _replay(op, name, fuel, args):
    """How to re-run one side of a case by hand."""
    impl = case_line('x', op if op != 'decm' else 'dec', rt.IDS[name], '-', *args)
    return {'impl_line': _trunc(impl, 4000),
            'model_type': 'python3 -c "import sys; sys.path.insert(0, \'gen\'); import rectypes; print(rectypes.sexp_unfold(%r, %d))"' % (name, fuel)}


# ---------------------------------------------------------------- proof side
def rec_proofs(coq):
    """Build and audit Properties/C01rec.v (fuel monotonicity, round trip / decode stability /
    extension / error kind at unfoldings) and merge the result into the dict that
    coq_property('C01') returned: C01 holds only if both theorem files are closed."""
    import vlib
    r = vlib.coq_property('C01rec')
    coq['ok'] = bool(coq.get('ok')) and bool(r.get('ok'))
    coq['obligations'] = coq.get('obligations', 0) + r.get('obligations', 0)
    coq['discharged'] = coq.get('discharged', 0) + r.get('discharged', 0)
    coq['theorems'] = list(coq.get('theorems', [])) + list(r.get('theorems', []))
    coq['problems'] = list(coq.get('problems', [])) + ['C01rec: ' + p for p in r.get('problems', [])]
    coq['wall_s'] = round((coq.get('wall_s') or 0) + (r.get('wall_s') or 0), 1)
    coq['rec_theorems'] = r.get('theorems', [])
    if r.get('failed_at') and not coq.get('failed_at'):
        coq['failed_at'] = r['failed_at']
    if not r.get('ok'):
        coq['log'] = (coq.get('log', '') + '\n--- C01rec ---\n' + r.get('log', ''))[-6000:]
    if r.get('coqchk'):
        coq['coqchk'] = (coq.get('coqchk', '') + ' | C01rec: ' + r['coqchk'])
    return coq


# ---------------------------------------------------------------- value plan
def plan(seed, tier):
    """[(cid, item, depth, shape, value-sexp)]"""
    rng = random.Random(seed * 6151 + 23)
    depths = range(1, 7) if tier == 'quick' else range(1, 11)
    per = 2 if tier == 'quick' else 4
    out = []
    for name in rt.ITEMS:
        for d in depths:
            shapes = rt.SHAPES[name]
            for sh in shapes:
                if d == 1 and sh != 'random':
                    continue
                k = per * (2 if len(shapes) == 1 else 1)
                for j in range(k):
                    size = rng.choice([2, 3, 4]) if tier == 'quick' else rng.choice([2, 3, 4, 6])
                    if name == 'Tree' and sh == 'full' and d > 7:
                        continue
                    out.append(('r%s%d%s%d' % (name, d, sh, j), name, d, sh, rt.gen_value(name, rng, d, size, sh)))
    if tier != 'quick':
        out.append(('rList2000', 'List', 2000, 'deep', rt.gen_value('List', rng, 2000)))
        out.append(('rRec3000', 'Rec', 3000, 'deep', rt.gen_value('Rec', rng, 3000)))
    return out


# ---------------------------------------------------------------- C01
def rec_stage(cfg, exe, driver, seed, tier):
    """Returns (stats, disagreements, failures)."""
    strict = '1' if CONFIGS[cfg][1] else '0'
    rng = random.Random(seed * 911 + 5)
    cases = plan(seed, tier)
    dis, fails = [], []
    stats = {'rec_cases': 0, 'rec_evaluations': 0, 'rec_by_item': {}, 'rec_max_depth': {}, 'rec_inconclusive': 0,
             'rec_fuel_monotone_checks': 0, 'rec_tight_depth_checks': 0, 'rec_samples': []}
    by_item, maxd = Counter(), {}

    def disagree(what, **kw):
        dis.append(dict({'what': what + ' [%s]' % cfg, 'cfg': cfg}, **kw))

    # (a) enc on the implementation
    impl = run_cases(exe, [case_line(cid, 'enc', rt.IDS[n], '-', v) for cid, n, d, sh, v in cases])
    stats['rec_evaluations'] += len(cases)
    good = []          # (cid, name, d, repr, hex)
    mlines = []
    expect = {}        # model cid -> (kind, base cid)
    for i, (cid, n, d, sh, v) in enumerate(cases):
        r = impl.get(cid)
        if r is None or '\t' not in r:
            disagree('harness gave no answer for rec item %s depth %d value %s: %s' % (n, d, _trunc(v), r),
                     item=n, depth=d, value=_trunc(v, 2000), impl=r, **_replay('enc', n, d, [v]))
            continue
        rep, res = r.split('\t', 1)
        by_item[n] += 1
        maxd[n] = max(maxd.get(n, 0), d)
        if d <= 50 and rt.depth(n, rep) != d:
            disagree('rec item %s: generator asked for depth %d, representation has depth %d' % (n, d, rt.depth(n, rep)),
                     item=n, depth=d, value=_trunc(rep, 2000))
        mlines.append(_model_line(cid, 'enc', n, d, rep))
        expect[cid] = ('enc', cid)
        small = rt.sexp_size(n, d + 2) <= BIG_SEXP
        if small and (tier != 'quick' or i % 2 == 0 or d >= 5):
            mlines.append(_model_line(cid + '+2', 'enc', n, d + 2, rep))
            expect[cid + '+2'] = ('enc+2', cid)
        mlines.append(_model_line(cid + 'h', 'hasty', n, d, rep))
        expect[cid + 'h'] = ('hasty', cid)
        mlines.append(_model_line(cid + '-1', 'enc', n, d - 1, rep))
        expect[cid + '-1'] = ('enc-1', cid)
        good.append((cid, n, d, rep, res))
    model = run_cases(driver, mlines)
    stats['rec_evaluations'] += len(mlines)
    info = {c[0]: c for c in good}
    for mcid, (kind, cid) in expect.items():
        _, n, d, rep, res = info[cid]
        m = model.get(mcid)
        if kind == 'enc':
            stats['rec_cases'] += 1
            if m != res:
                disagree('enc rec %s depth %d %s: impl %s, model(fuel %d) %s' % (n, d, _trunc(rep), _trunc(res), d, _trunc(m or 'missing')),
                         item=n, depth=d, type=_tyname(n, d), repr=_trunc(rep, 4000), impl=_trunc(res, 4000), model=_trunc(m or 'missing', 4000),
                         **_replay('enc', n, d, [rep]))
        elif kind == 'enc+2':
            stats['rec_fuel_monotone_checks'] += 1
            if m != model.get(cid):
                disagree('model enc of rec %s depth %d differs between fuel %d and fuel %d: %s vs %s (contradicts the fuel-independence theorem)'
                         % (n, d, d, d + 2, _trunc(model.get(cid) or 'missing'), _trunc(m or 'missing')),
                         item=n, depth=d, repr=_trunc(rep, 4000), **_replay('enc', n, d + 2, [rep]))
        elif kind == 'hasty':
            if m != '1':
                disagree('model has_ty of rec %s depth %d at fuel %d is %s, expected 1: %s' % (n, d, d, m, _trunc(rep)),
                         item=n, depth=d, repr=_trunc(rep, 4000), **_replay('enc', n, d, [rep]))
        elif kind == 'enc-1':
            stats['rec_tight_depth_checks'] += 1
            if m != rt.CUT_ANSWER:
                disagree('model enc of rec %s depth %d at fuel %d gives %s, expected the cut (%s)' % (n, d, d - 1, _trunc(m or 'missing'), rt.CUT_ANSWER),
                         item=n, depth=d, repr=_trunc(rep, 4000), **_replay('enc', n, d - 1, [rep]))
    # (b) decode bytes ++ tail
    ilines, mlines, dexp = [], [], []
    for cid, n, d, rep, res in good:
        if not res.startswith('ok'):
            disagree('rec %s depth %d does not encode on the implementation: %s' % (n, d, res), item=n, depth=d, repr=_trunc(rep, 4000))
            continue
        h = res.split(' ')[1].replace('-', '')
        tail = rng.choice(TAILS)
        ilines.append(case_line(cid + 'd', 'dec', rt.IDS[n], '-', 'deserialize', (h + tail) or '-'))
        for df in (0, 1):
            mlines.append(_model_line('%sd%d' % (cid, df), 'dec', n, d + df, strict, (h + tail) or '-'))
        want = 'ok %s %s' % (rep, tail or '-')
        ilines.append(case_line(cid + 's', 'dec', rt.IDS[n], '-', 'try_from_slice', h or '-'))
        mlines.append(_model_line(cid + 's', 'decm', n, d, 'try_from_slice', strict, h or '-'))
        dexp.append((cid, n, d, rep, h, tail, want))
    impl = run_cases(exe, ilines)
    model = run_cases(driver, mlines)
    stats['rec_evaluations'] += len(ilines) + len(mlines)
    for cid, n, d, rep, h, tail, want in dexp:
        r = impl.get(cid + 'd')
        for df in (0, 1):
            m = model.get('%sd%d' % (cid, df))
            if r is None or r != m:
                disagree('dec rec %s depth %d on %s: impl %s, model(fuel %d) %s' % (n, d, _trunc(h + tail), _trunc(r or 'missing'), d + df, _trunc(m or 'missing')),
                         item=n, depth=d, type=_tyname(n, d + df), input=_trunc(h + tail, 4000), impl=_trunc(r or 'missing', 4000),
                         model=_trunc(m or 'missing', 4000), **_replay('dec', n, d + df, ['deserialize', h + tail]))
        r, m = impl.get(cid + 's'), model.get(cid + 's')
        if r is None or r != m:
            disagree('try_from_slice rec %s depth %d on %s: impl %s, model(fuel %d) %s' % (n, d, _trunc(h), _trunc(r or 'missing'), d, _trunc(m or 'missing')),
                     item=n, depth=d, type=_tyname(n, d), input=_trunc(h, 4000), impl=_trunc(r or 'missing', 4000),
                     model=_trunc(m or 'missing', 4000), **_replay('dec', n, d, ['try_from_slice', h]))
    # (c) the property itself on the implementation alone
    olines = []
    otail = {}
    for cid, n, d, rep, res in good:
        otail[cid] = rng.choice(TAILS)
        olines.append(case_line(cid + 'o', 'rt', rt.IDS[n], '-', rep, otail[cid] or '-'))
    ores = run_cases(exe, olines)
    stats['rec_evaluations'] += len(olines)
    for cid, n, d, rep, res in good:
        r = ores.get(cid + 'o')
        if r is None or not r.startswith('ok same'):
            fails.append({'class': 'roundtrip', 'key': 'rec %s %s' % (n, _trunc(rep, 200)),
                          'what': 'round trip fails on the implementation: recursive item %s (%s) depth %d value %s tail %s -> %s [%s]'
                                  % (n, rt.RUST[n], d, _trunc(rep), otail[cid], _trunc(r or 'missing'), cfg),
                          'type': n, 'rust': rt.RUST[n], 'value': _trunc(rep, 4000), 'tail': otail[cid], 'result': _trunc(r or 'missing', 2000),
                          'replay_cmd': "printf '%s\\n' | <harness> " % _trunc(case_line(cid, 'rt', rt.IDS[n], '-', rep, otail[cid] or '-'), 4000)})
    stats['rec_by_item'] = dict(by_item)
    stats['rec_max_depth'] = maxd
    picks = [g for g in good if g[2] in (3, 4)][::5][:6] + [g for g in good if g[2] >= 1000][:1]
    stats['rec_samples'] = [{'type': n, 'rust': rt.RUST[n], 'depth': d, 'value': _trunc(rep, 240), 'bytes': _trunc(res, 240)} for _, n, d, rep, res in picks]
    stats['rec_rule'] = ('recursive derived items %s (ids 200000..): generated values of depth 1..%d (several shapes: left/right-skewed, spine, '
                         'alternating Arr/Obj)%s; value of depth d typed at the finite unfolding with fuel d; model also run at fuel d+2 (same answer), '
                         'd-1 (cut reached), decode at fuel d and d+1; CUT = %s; proof side Properties/C01rec.v '
                         '(rec_fuel_monotone, C01_rec_round_trip, rec_decode_stable, rec_decode_final, C05_rec_extend, C16_rec_kind)' % ('/'.join(rt.ITEMS), 6 if tier == 'quick' else 10,
                                                                           '' if tier == 'quick' else ' plus a 2000-deep List and a 3000-deep Rec',
                                                                           rt.CUT_SEXP))
    return stats, dis, fails


# ---------------------------------------------------------------- C05 / C16
def conclusive_fuel(name, nbytes):
    """Level k is entered only after (k-1) * LEVEL_BYTES input bytes were consumed, so a decode
    of nbytes bytes enters at most level nbytes // LEVEL_BYTES + 1; one more for margin."""
    return min(nbytes + 1, nbytes // rt.LEVEL_BYTES[name] + 2)


def decode_vs_model(cfg, exe, driver, cases, tier):
    """cases: [(cid, item, mode, hex)], mode in deserialize / try_from_slice.
    Returns (records, inconclusive count).  record: cid item mode input impl model fuel agree."""
    strict = '1' if CONFIGS[cfg][1] else '0'
    cap = JSON_FUEL_CAP[tier]
    impl = run_cases(exe, [case_line(cid, 'dec', rt.IDS[n], '-', mode, h or '-') for cid, n, mode, h in cases])
    fuels = {}
    for cid, n, mode, h in cases:
        f = conclusive_fuel(n, len(h) // 2)
        fuels[cid] = f if rt.LINEAR[n] else min(f, cap)
    model = run_cases(driver, [_model_line(cid, 'decm', n, fuels[cid], mode, strict, h or '-') for cid, n, mode, h in cases])
    # the cut was reached: retry the linear items once at the trivially conclusive fuel len+1
    retry = [(cid, n, mode, h) for cid, n, mode, h in cases
             if model.get(cid) == rt.CUT_ANSWER and rt.LINEAR[n] and fuels[cid] < len(h) // 2 + 1]
    if retry:
        for cid, n, mode, h in retry:
            fuels[cid] = len(h) // 2 + 1
        model.update(run_cases(driver, [_model_line(cid, 'decm', n, fuels[cid], mode, strict, h or '-') for cid, n, mode, h in retry]))
    recs, inconclusive = [], 0
    for cid, n, mode, h in cases:
        r, m = impl.get(cid), model.get(cid)
        rec = {'cid': cid, 'item': n, 'type': _tyname(n, fuels[cid]), 'mode': mode, 'input': h, 'cfg': cfg, 'impl': r, 'model': m,
               'fuel': fuels[cid], 'pulled': None}
        if m == rt.CUT_ANSWER and fuels[cid] < conclusive_fuel(n, len(h) // 2):
            rec['agree'] = None          # capped fuel (Json): inconclusive
            inconclusive += 1
        else:
            rec['agree'] = r is not None and r == m
        recs.append(rec)
    return recs, inconclusive


def hostile_encodings(exe, seed, tier):
    """Valid encodings of recursive values produced by the implementation: [(item, depth, hex)]."""
    rng = random.Random(seed * 4099 + 1)
    depths = [1, 2, 3, 6] if tier == 'quick' else [1, 2, 3, 4, 5, 6, 8]
    per = 1 if tier == 'quick' else 3
    vals = []
    for n in rt.ITEMS:
        for d in depths:
            for j in range(per):
                sh = rng.choice(rt.SHAPES[n]) if d > 1 else 'random'
                if sh == 'full' and d > 4:
                    sh = 'left'
                vals.append(('h%s%d_%d' % (n, d, j), n, d, rt.gen_value(n, rng, d, 3, sh)))
    if tier != 'quick':
        vals.append(('hList300', 'List', 300, rt.gen_value('List', rng, 300)))
        vals.append(('hRec500', 'Rec', 500, rt.gen_value('Rec', rng, 500)))
    impl = run_cases(exe, [case_line(cid, 'enc', rt.IDS[n], '-', v) for cid, n, d, v in vals])
    out = []
    for cid, n, d, v in vals:
        r = impl.get(cid)
        if r and '\tok' in r:
            out.append((n, d, r.split('\t', 1)[1].split(' ')[1].replace('-', '')))
    return out, len(vals)


def rec_hostile_stage(cfg, exe, driver, seed, tier, mode):
    """mode 'c05': proper prefixes (must be rejected) and tails (deserialize leaves exactly the
    tail, try_from_slice rejects).  mode 'c16': truncations, single-byte corruptions, random
    strings (error kind must be InvalidData, no panic, truncation => UnexpectedLength).
    Returns (stats, disagreements, failures)."""
    rng = random.Random(seed * 1237 + (5 if mode == 'c05' else 16))
    encs, asked = hostile_encodings(exe, seed, tier)
    dis, fails = [], []
    if len(encs) != asked:
        dis.append({'what': 'rec items: only %d of %d generated values encoded on the implementation [%s]' % (len(encs), asked, cfg)})
    cases, kind = [], {}
    tcap, ccap = (6, 6) if tier == 'quick' else (24, 16)
    for gi, (n, d, h) in enumerate(encs):
        for pi, pre in enumerate(truncations(h, rng, tcap)):
            for em in (['deserialize', 'try_from_slice'] if (gi + pi) % 3 == 0 else [rng.choice(['deserialize', 'try_from_slice'])]):
                cid = 't%d_%d_%s' % (gi, pi, em[0])
                cases.append((cid, n, em, pre))
                kind[cid] = ('trunc',)
        if mode == 'c05':
            for ti, tail in enumerate(['00', 'ff01', '000000']):
                for em in ('deserialize', 'try_from_slice'):
                    cid = 'x%d_%d_%s' % (gi, ti, em[0])
                    cases.append((cid, n, em, h + tail))
                    kind[cid] = ('tail', tail, len(h) // 2)
        else:
            for ci, cor in enumerate(corruptions(h, rng, ccap)):
                cid = 'c%d_%d' % (gi, ci)
                cases.append((cid, n, rng.choice(['deserialize', 'try_from_slice']), cor))
                kind[cid] = ('corrupt',)
    if mode != 'c05':
        for n in rt.ITEMS:
            for j in range(6 if tier == 'quick' else 40):
                k = rng.choice([0, 1, 2, 3, 5, 6, 9, 10, 16, 33])
                # low bytes, so that tags and length prefixes are often plausible and the input nests
                h = bytes(rng.choice([0, 1, 1, 2, 2, 3, rng.randrange(256)]) for _ in range(k)).hex()
                if j % 3 == 0:
                    h = rng.choice(['ffffffff', '02ffffffff', '0301000000', '0101', '01010101010101010101']) + h
                cid = 'r%s_%d' % (n, j)
                cases.append((cid, n, rng.choice(['deserialize', 'try_from_slice']), h))
                kind[cid] = ('random',)
        # nesting bombs: k levels opened and never closed (Json: beyond the fuel cap => inconclusive)
        level = {'Tree': '0501000000', 'List': '0107000000', 'Json': '0201000000', 'Rec': '01'}
        for n in rt.ITEMS:
            for j, k in enumerate([12, 40] if tier == 'quick' else [12, 40, 400, 2500]):
                for close in ('', '00'):
                    cid = 'n%s_%d%s' % (n, j, close)
                    cases.append((cid, n, 'deserialize', level[n] * k + close))
                    kind[cid] = ('nest',)
    recs, inconclusive = decode_vs_model(cfg, exe, driver, cases, tier)
    classes, by_item = Counter(), Counter()
    for r in recs:
        impl = r['impl'] or 'missing'
        k = kind[r['cid']]
        by_item[r['item']] += 1
        classes[k[0] + ':' + error_class(impl)] += 1
        if r['agree'] is False:
            dis.append(dict({'what': '%s rec %s (fuel %d) on %s: impl %s, model %s [%s]' % (r['mode'], r['item'], r['fuel'], _trunc(r['input']),
                                                                                              _trunc(impl), _trunc(r['model'] or 'missing'), cfg)},
                            **dict(r, input=_trunc(r['input'], 4000), **_replay('dec', r['item'], r['fuel'], [r['mode'], r['input']]))))
        bad = None
        if mode == 'c05':
            if k[0] == 'trunc' and impl.startswith('ok'):
                bad = 'a proper prefix of a valid encoding was accepted'
            elif k[0] == 'tail' and r['mode'] == 'try_from_slice' and impl.startswith('ok'):
                bad = 'input with bytes left over after the value was accepted'
            elif k[0] == 'tail' and r['mode'] == 'deserialize' and not (impl.startswith('ok ') and impl.rsplit(' ', 1)[1] == k[1]):
                bad = 'decoding did not leave exactly the bytes that followed the value'
            cls = 'self-delimiting'
        else:
            if impl.startswith('err ') and impl.split(' ')[1] != 'InvalidData':
                bad = 'error kind %s escaped for in-memory input' % impl.split(' ')[1]
            elif impl.startswith('panic') or impl == 'missing':
                bad = 'decoding in-memory input panicked or died'
            elif k[0] == 'trunc' and not impl.startswith('err InvalidData UnexpectedLength'):
                bad = 'a truncated valid encoding was not reported as "Unexpected length of input"'
            cls = 'error-kind'
        if bad:
            fails.append({'class': cls, 'key': 'rec %s %s %s' % (r['item'], r['mode'], _trunc(r['input'], 200)),
                          'what': '%s: %s recursive item %s (%s) on %s -> %s [%s]' % (bad, r['mode'], r['item'], rt.RUST[r['item']], _trunc(r['input']), _trunc(impl), cfg),
                          'type': r['item'], 'rust': rt.RUST[r['item']], 'mode': r['mode'], 'input': _trunc(r['input'], 4000), 'result': _trunc(impl, 2000), 'cfg': cfg})
    stats = {'rec_hostile_cases': len(recs), 'rec_inconclusive': inconclusive, 'rec_by_item': dict(by_item),
             'rec_result_classes': dict(classes), 'rec_max_fuel': max([r['fuel'] for r in recs] + [0]),
             'rec_samples': [{'type': r['item'], 'fuel': r['fuel'], 'mode': r['mode'], 'input': _trunc(r['input'], 120), 'result': _trunc(r['impl'] or 'missing', 160)}
                             for r in recs[3::max(1, len(recs) // 6)][:6]],
             'rec_rule': 'recursive items %s: inputs derived from implementation-produced encodings; model run on the finite unfolding with fuel '
                         'len//level_bytes+2 (Tree/List/Rec, conclusive) or min(that, %d) (Json); a model answer "%s" below the conclusive fuel is counted '
                         'as inconclusive -- by theorem rec_decode_final every other model answer at an unfolding (a value or any other error) is the answer at '
                         'every larger fuel, so only that one is not final' % ('/'.join(rt.ITEMS), JSON_FUEL_CAP[tier], rt.CUT_ANSWER)}
    return stats, dis, fails


def merge_stats(stats, rs):
    """Merge the stats of one configuration's rec stage into a check's stats dict."""
    for k, v in rs.items():
        if isinstance(v, int) and not isinstance(v, bool) and k not in ('rec_max_fuel',):
            stats[k] = stats.get(k, 0) + v
        elif k in ('rec_by_item', 'rec_result_classes'):
            d = stats.setdefault(k, {})
            for a, b in v.items():
                d[a] = d.get(a, 0) + b
        elif k == 'rec_max_depth':
            d = stats.setdefault(k, {})
            for a, b in v.items():
                d[a] = max(d.get(a, 0), b)
        elif k == 'rec_max_fuel':
            stats[k] = max(stats.get(k, 0), v)
        elif k not in stats or not stats[k]:
            stats[k] = v
    return stats
