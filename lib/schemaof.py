"""Shared pieces of the C08 / C17 checks.

* `interp(c, data)`: an INTERPRETER of a schema container over bytes.  It uses only the
  container (primitive widths, length width and range, tag width, discriminants, names) and
  returns a structure; independent of the Coq `sdec` and of the Rust code.
* `shape(t, v)`: the structure a typed logical value has (field order and names, variant names
  and tag values, element counts, primitive widths), computed from the TYPE, independently of any
  schema.  The C08 oracle is `interp(for_type::<T>(), to_vec(v)) == (shape(T, v), no bytes left)`.
* a Python encoder of containers (`container_bytes`), used to build corrupted schema prefixes
  (definitions reordered / duplicated) that no Rust value can produce.

Structures are printed in the syntax the OCaml driver uses for `sval`:
  (P HEX) | (Q sv...) | (T sv...) | (N (xNAME sv)...) | (U sv...) | (E) | (V DISCR xNAME sv)"""
import struct

from tyuniv import *  # noqa
import schema_oracle as O


class NoDecode(Exception):
    pass


# ------------------------------------------------------------------ values
def parse_val(s):
    l = O._parse(s)

    def conv(x):
        if isinstance(x, str):
            return int(x)
        if x[0] == 'b':
            return ('l', list(bytes.fromhex(x[1])) if len(x) > 1 else [])
        if x[0] == 'l':
            return ('l', [conv(y) for y in x[1:]])
        if x[0] == 'v':
            return ('v', int(x[1]), conv(x[2]))
        raise ValueError(x)
    return conv(l)


# ------------------------------------------------------------------ the interpreter
def interp(c, data):
    """(structure, bytes left).  Raises NoDecode."""
    m = {}
    for k, d in c['defs']:
        m.setdefault(k, d)
    pos = [0]

    def take(n):
        if pos[0] + n > len(data):
            raise NoDecode('eof')
        b = data[pos[0]:pos[0] + n]
        pos[0] += n
        return b

    def go(decl, depth):
        if depth > 200:
            raise NoDecode('depth')
        d = m.get(decl)
        if d is None:
            raise NoDecode('undefined ' + decl)
        k = d[0]
        if k == 'p':
            return ('P', bytes(take(d[1])))
        if k == 's':
            _, lw, lo, hi, el = d
            if lw == 0:
                if lo != hi:
                    raise NoDecode('untagged dynamic sequence')
                n = lo
            else:
                n = int.from_bytes(take(lw), 'little')
                if not (lo <= n <= hi):
                    raise NoDecode('length out of range')
            if n > 10 ** 7:
                raise NoDecode('too long')
            return ('Q', [go(el, depth + 1) for _ in range(n)])
        if k == 't':
            return ('T', [go(e, depth + 1) for e in d[1]])
        if k == 'e':
            _, tw, vs = d
            if tw == 0:
                raise NoDecode('untagged enum')
            tag = int.from_bytes(take(tw), 'little')
            for disc, vn, dc in vs:
                if disc == tag:
                    return ('V', disc, vn, go(dc, depth + 1))
            raise NoDecode('no variant %d' % tag)
        if k == 'sn':
            return ('N', [(n, go(dc, depth + 1)) for n, dc in d[1]])
        if k == 'su':
            return ('U', [go(dc, depth + 1) for dc in d[1]])
        if k == 'se':
            return ('E',)
        raise NoDecode('bad definition')

    sv = go(c['root'], 0)
    return sv, data[pos[0]:]


def show_sv(sv):
    k = sv[0]
    if k == 'P':
        return '(P %s)' % (sv[1].hex() or '-')
    if k in ('Q', 'T', 'U'):
        return '(%s%s)' % (k, ''.join(' ' + show_sv(x) for x in sv[1]))
    if k == 'N':
        return '(N%s)' % ''.join(' (%s %s)' % (O.hexname(n), show_sv(x)) for n, x in sv[1])
    if k == 'E':
        return '(E)'
    if k == 'V':
        return '(V %d %s %s)' % (sv[1], O.hexname(sv[2]), show_sv(sv[3]))
    raise ValueError(sv)


# ------------------------------------------------------------------ the shape of a typed value
RANGE_FIELDS = {'range': ['start', 'end'], 'inclusive': ['start', 'end'], 'from': ['start'], 'to': ['end'],
                'toinclusive': ['end']}


def _fields(fnames, skips, svs):
    kept = [x for x, s in zip(svs, skips) if not s]
    if not kept:
        return ('E',)
    if not fnames:
        return ('U', kept)
    return ('N', list(zip([n for n, s in zip(fnames, skips) if not s], kept)))


def shape(t, v):
    """t: type (tyuniv form); v: LOGICAL value (python val form: int | ('l', [..]) | ('v', i, x))."""
    k = t[0]
    if k == 'prim':
        return ('P', int(v).to_bytes(PRIM_WIDTH[t[1]], 'little'))
    if k == 'unit':
        return ('E',) if t[1] == 'rangefull' else ('P', b'')
    if k == 'raw':
        return ('N', [('octets', ('Q', [('P', bytes([b])) for b in v[1]]))])
    if k == 'text':
        return ('Q', [('P', bytes([b])) for b in v[1]])
    if k == 'seq':
        if t[1] == 'deque':
            elems = v[1][0][1] + v[1][1][1]
        else:
            elems = v[1]
        return ('Q', [shape(t[2], x) for x in elems])
    if k == 'array':
        return ('Q', [shape(t[2], x) for x in v[1]])
    if k == 'prod':
        kind = t[1]
        svs = [shape(x, y) for x, y in zip(t[2], v[1])]
        if kind == 'tuple':
            return ('T', svs)
        if kind[0] == 'range':
            return ('N', list(zip(RANGE_FIELDS[kind[1]], svs)))
        if kind[0] == 'struct':
            return _fields(kind[2], kind[3], svs)
        if kind[0] == 'variant':
            return _fields(kind[1], kind[2], svs)
        raise ValueError(t)
    if k == 'sum':
        kind = t[1]
        i, x = v[1], v[2]
        if kind == 'option':
            return ('V', i, ['None', 'Some'][i], ('P', b'') if i == 0 else shape(t[2][1], x))
        if kind == 'result':
            return ('V', [1, 0][i], ['Ok', 'Err'][i], shape(t[2][i], x))
        if kind == 'ipaddr':
            return ('V', i, ['V4', 'V6'][i], ('U', [shape(t[2][i], x)]))
        if kind[0] == 'enum':
            return ('V', kind[3][i], kind[2][i], shape(t[2][i], x))
        raise ValueError(t)
    if k == 'wrap':
        return shape(t[2], v)
    raise ValueError(t)


# ------------------------------------------------------------------ the container codec, in Python
def _s(x):
    b = x.encode('utf-8')
    return struct.pack('<I', len(b)) + b


def def_bytes(d):
    k = d[0]
    if k == 'p':
        return bytes([0, d[1]])
    if k == 's':
        return bytes([1, d[1]]) + struct.pack('<QQ', d[2], d[3]) + _s(d[4])
    if k == 't':
        return bytes([2]) + struct.pack('<I', len(d[1])) + b''.join(_s(e) for e in d[1])
    if k == 'e':
        return bytes([3, d[1]]) + struct.pack('<I', len(d[2])) + b''.join(struct.pack('<q', x) + _s(n) + _s(dc) for x, n, dc in d[2])
    if k == 'sn':
        return bytes([4, 0]) + struct.pack('<I', len(d[1])) + b''.join(_s(n) + _s(dc) for n, dc in d[1])
    if k == 'su':
        return bytes([4, 1]) + struct.pack('<I', len(d[1])) + b''.join(_s(dc) for dc in d[1])
    if k == 'se':
        return bytes([4, 2])
    raise ValueError(d)


def container_bytes(c, entries=None):
    """root, then the entries in the order GIVEN (no sorting, no deduplication)."""
    es = c['defs'] if entries is None else entries
    return _s(c['root']) + struct.pack('<I', len(es)) + b''.join(_s(k) + def_bytes(d) for k, d in es)


def fits_codec(c):
    """every number of the container is representable in its Rust field (u8 / u64 / i64) and every name is a str"""
    for _, d in c['defs']:
        k = d[0]
        if k == 'p' and not d[1] < 256:
            return False
        if k == 's' and not (d[1] < 256 and d[2] < 2 ** 64 and d[3] < 2 ** 64):
            return False
        if k == 'e' and not (d[1] < 256 and all(-2 ** 63 <= x < 2 ** 63 for x, _, _ in d[2])):
            return False
    return True


def canonical(c):
    """the container as Rust holds it: a map (first occurrence of a name wins), ascending by UTF-8 bytes"""
    m = {}
    for k, d in c['defs']:
        m.setdefault(k, d)
    return {'root': c['root'], 'defs': sorted(m.items(), key=lambda kv: kv[0].encode('utf-8'))}


class BadContainer(Exception):
    pass


def container_parse(data):
    """Inverse of container_bytes: (root, entries in wire order, bytes consumed).  Raises BadContainer."""
    pos = [0]

    def take(n):
        if pos[0] + n > len(data):
            raise BadContainer('eof')
        b = data[pos[0]:pos[0] + n]
        pos[0] += n
        return b

    def u(n):
        return int.from_bytes(take(n), 'little')

    def s():
        n = u(4)
        try:
            return bytes(take(n)).decode('utf-8')
        except UnicodeDecodeError:
            raise BadContainer('utf8')

    def vec(f):
        n = u(4)
        if n > len(data):
            raise BadContainer('eof')
        return [f() for _ in range(n)]

    def definition():
        tag = u(1)
        if tag == 0:
            return ('p', u(1))
        if tag == 1:
            lw = u(1)
            lo = u(8)
            hi = u(8)
            return ('s', lw, lo, hi, s())
        if tag == 2:
            return ('t', vec(s))
        if tag == 3:
            tw = u(1)
            return ('e', tw, vec(lambda: (int.from_bytes(take(8), 'little', signed=True), s(), s())))
        if tag == 4:
            ft = u(1)
            if ft == 0:
                return ('sn', vec(lambda: (s(), s())))
            if ft == 1:
                return ('su', vec(s))
            if ft == 2:
                return ('se',)
        raise BadContainer('tag')

    root = s()
    entries = vec(lambda: (s(), definition()))
    return root, entries, pos[0]


def as_map(root, entries):
    """what BTreeMap::from_iter makes of the entries: the LAST occurrence of a key wins"""
    m = {}
    for k, d in entries:
        m[k] = d
    return {'root': root, 'defs': sorted(m.items(), key=lambda kv: kv[0].encode('utf-8'))}
