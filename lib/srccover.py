"""Source coverage: which types the crate implements BorshSerialize / BorshDeserialize / BorshSchema for,
as the COMPILER sees them (rustdoc's JSON output of the working tree, macros expanded), against the
constructors of the model's type universe that the catalogue exercises.

The model is hand-written: an impl added to the crate (or one that appears under a new feature) would
otherwise be outside every theorem and every correspondence run without anything noticing.  This stage
turns "the model covers every built-in impl" from an assertion into a check: every implementor reported
by rustdoc must have an entry in COVER, and every entry must be exercised by at least one catalogue type
(or be listed as covered elsewhere, with the reason).

Needs the nightly toolchain (`cargo +nightly rustdoc -- -Z unstable-options --output-format json`);
when that is not usable the stage reports so in the evidence and gives no verdict."""
import json
import os
import re

from vlib import *  # noqa
import vlib

FEATURES = {
    'std': ['--features', 'derive,unstable__schema,rc,bytes,ascii,bson,indexmap,de_strict_order'],
    'nostd': ['--no-default-features', '--features', 'derive,unstable__schema,rc,bytes,ascii,bson,indexmap,hashbrown'],
}
TRAITS = ('BorshSerialize', 'BorshDeserialize', 'BorshSchema')


def _ty(t):
    """a rustdoc-json Type -> normalised head"""
    if not isinstance(t, dict) or not t:
        return '?'
    k = next(iter(t))
    v = t[k]
    if k == 'resolved_path':
        name = (v.get('path') or v.get('name') or '?').split('::')[-1]
        n = 0
        a = v.get('args') or {}
        if 'angle_bracketed' in a:
            n = len([x for x in a['angle_bracketed']['args'] if 'type' in x])
        return '%s/%d' % (name, n) if n else name
    if k == 'primitive':
        return v
    if k == 'generic':
        return 'T'
    if k == 'tuple':
        return 'tuple/%d' % len(v)
    if k == 'slice':
        return 'slice'
    if k == 'array':
        return 'array'
    if k == 'borrowed_ref':
        return 'ref'
    return k


def nightly_installed():
    rc, out = sh(['rustup', 'toolchain', 'list'], timeout=60)
    return rc == 0 and 'nightly' in out


def implementors(flavour):
    """{trait: sorted set of heads} or (None, why)"""
    tdir = '%s/target-doc-%s%s' % (CACHE, flavour, vlib.TAG)
    cmd = ['timeout', '900', 'cargo', '+nightly', 'rustdoc', '--offline', '--lib'] + FEATURES[flavour] + \
          ['--target-dir', tdir, '--', '-Z', 'unstable-options', '--output-format', 'json', '--cap-lints', 'allow']
    rc, out = sh(cmd, cwd=vlib.REPO + '/borsh', timeout=1000)
    path = tdir + '/doc/borsh.json'
    if rc != 0 or not os.path.exists(path):
        return None, 'cargo +nightly rustdoc failed (rc %s): %s' % (rc, out[-400:])
    try:
        d = json.load(open(path))
    except Exception as e:
        return None, 'unreadable rustdoc json: %r' % (e,)
    res = {t: set() for t in TRAITS}
    for it in d.get('index', {}).values():
        inner = it.get('inner') or {}
        im = inner.get('impl') if isinstance(inner, dict) else None
        if not im or not im.get('trait'):
            continue
        tr = (im['trait'].get('path') or im['trait'].get('name') or '').split('::')[-1]
        if tr in res:
            res[tr].add(_ty(im.get('for')))
    return {k: sorted(v) for k, v in res.items()}, None


# head -> how the model covers it: the outermost Rust name of some SUBTERM of a catalogue type (path stripped; a
# pattern ending in '<' is a generic head, anything else must be the whole name), a structural test for the
# types that have no name (slice, array, reference, unit), or ('elsewhere', reason)
def _prims():
    d = {}
    for p in ('u8', 'u16', 'u32', 'u64', 'u128', 'usize', 'i8', 'i16', 'i32', 'i64', 'i128', 'isize', 'f32', 'f64', 'bool'):
        d[p] = p
    for n in ('I8', 'I16', 'I32', 'I64', 'I128', 'U8', 'U16', 'U32', 'U64', 'U128', 'Usize'):
        d['NonZero' + n] = 'NonZero' + n
    return d


COVER = dict(_prims())
COVER.update({
    'str': 'str', 'String': 'String', 'slice': ('term', 'slice'), 'array': ('term', 'array'), 'ref': ('term', 'ref'), 'Option/1': 'Option<', 'Result/2': 'Result<',
    'Vec/1': 'Vec<', 'VecDeque/1': 'VecDeque<', 'LinkedList/1': 'LinkedList<', 'BTreeMap/2': 'BTreeMap<', 'BTreeSet/1': 'BTreeSet<',
    'HashMap/3': 'HashMap<', 'HashSet/2': 'HashSet<', 'IndexMap/3': 'IndexMap<', 'IndexSet/2': 'IndexSet<',
    'Box/1': 'Box<', 'Rc/1': 'Rc<', 'Arc/1': 'Arc<', 'Cow/1': 'Cow<', 'Cell/1': 'Cell<', 'RefCell/1': 'RefCell<', 'PhantomData/1': 'PhantomData<',
    'Range/1': 'ops::Range<', 'RangeFrom/1': 'ops::RangeFrom<', 'RangeTo/1': 'ops::RangeTo<', 'RangeInclusive/1': 'ops::RangeInclusive<',
    'RangeToInclusive/1': 'ops::RangeToInclusive<', 'RangeFull': 'RangeFull',
    'IpAddr': 'IpAddr', 'Ipv4Addr': 'Ipv4Addr', 'Ipv6Addr': 'Ipv6Addr', 'SocketAddr': 'SocketAddr', 'SocketAddrV4': 'SocketAddrV4', 'SocketAddrV6': 'SocketAddrV6',
    'AsciiChar': 'AsciiChar', 'AsciiStr': 'AsciiStr', 'AsciiString': 'AsciiString', 'Bytes': 'bytes::Bytes', 'BytesMut': 'BytesMut', 'ObjectId': 'ObjectId',
    'tuple/0': ('term', 'unit'),
    'BorshSchemaContainer': ('elsewhere', 'Coq ty_container (WithSchema.v); codec and own schema exercised by C17 stage 4 and C08'),
    'Definition': ('elsewhere', 'part of ty_container'),
    'Fields': ('elsewhere', 'part of ty_container'),
    'tuple/21': ('elsewhere', 'BorshSchema only: no encoder or decoder exists for 21-tuples, so there is no wire format to describe; schema_of covers tuples of every arity'),
})
for _n in range(1, 21):
    COVER['tuple/%d' % _n] = ('tuple', _n)


def stage(traits, catalogue_types, rust):
    """-> (stats, disagreements).  catalogue_types: [(tid, t)], rust: t -> Rust name."""
    import tyuniv
    seen = set()       # outermost names of all subterms, path stripped: 'Vec<', 'u8', 'SocketAddrV6', ...
    shapes = set()
    arities = set()
    for _, t in catalogue_types:
        for s in tyuniv.subterms(t):
            if s[0] == 'prod' and s[1] == 'tuple':
                arities.add(len(s[2]))
            if s[0] == 'seq' and s[1] == 'slice':
                shapes.add('slice')
            elif s[0] == 'array':
                shapes.add('array')
            elif s[0] == 'wrap' and s[1] == 'ref':
                shapes.add('ref')
            elif s == ('unit', 'unit'):
                shapes.add('unit')
            try:
                n = rust(s)
            except Exception:
                continue
            m = re.match(r"^(?:\w+::)*(\w+)(<?)", n)
            if m:
                seen.add(m.group(1) + m.group(2))

    def exercised(pat):
        m = re.match(r"^(?:\w+::)*(\w+<?)$", pat)
        return bool(m) and m.group(1) in seen
    stats = {'source_cover': {}}
    dis = []
    for flavour in FEATURES:
        imp, why = implementors(flavour)
        if imp is None:
            stats['source_cover'][flavour] = {'usable': False, 'why': why}
            if nightly_installed():
                # the toolchain is there, so the stage is part of the check: its failure (a timeout, a crate that no longer
                # documents) is not "no verdict"
                dis.append({'what': 'the list of implementors could not be produced for the %s build although a nightly toolchain is installed: %s' % (flavour, why[:300])})
            continue
        rec = {'usable': True}
        for tr in traits:
            heads = imp.get(tr, [])
            unknown, unexercised, elsewhere = [], [], []
            for h in heads:
                c = COVER.get(h)
                if c is None:
                    unknown.append(h)
                elif isinstance(c, tuple) and c[0] == 'elsewhere':
                    elsewhere.append(h)
                elif isinstance(c, tuple) and c[0] == 'tuple':
                    if c[1] not in arities:
                        unexercised.append(h)
                elif isinstance(c, tuple) and c[0] == 'term':
                    if c[1] not in shapes:
                        unexercised.append(h)
                elif not exercised(c):
                    unexercised.append(h)
            rec[tr] = {'implementors': len(heads), 'covered_elsewhere': elsewhere}
            for h in unknown:
                dis.append({'what': 'the crate implements %s for a type the model\'s universe has no constructor for: %s [%s build]; '
                                    'no theorem and no correspondence run says anything about that impl' % (tr, h, flavour)})
            for h in unexercised:
                dis.append({'what': 'the crate implements %s for %s [%s build], which the model covers but no catalogue type exercises' % (tr, h, flavour)})
        stats['source_cover'][flavour] = rec
    return stats, dis
